/-
Filtering and sorting: `service.Filter`, `service.Sort`, and the translation of the CLI filter
flags into a query (`FilterArgs.ApplyFilter`).  Mirrors klog/service/query.go and
klog/app/cli/util/args.go.
-/
import KlogV.Model.Tags
namespace KlogV

inductive EntryType where
  | duration | positive | negative | range | openRange
  deriving DecidableEq, Repr

structure Query where
  tags : List Tag := []
  beforeOrEqual : Option Date := none
  afterOrEqual : Option Date := none
  atDate : Option Date := none
  etype : Option EntryType := none
  deriving Repr

def entryMatchesType (t : EntryType) (e : Entry) : Bool :=
  match e.val with
  | .range _ _ _ => t == .range
  | .openRange _ _ _ => t == .openRange
  | .dur d => t == .duration || (t == .positive && d.mins ≥ 0) || (t == .negative && d.mins < 0)

def isSubsetOfTags (q : List Tag) (have_ : List Tag) : Bool := q.all (tagSetContains have_)

/-- `reduceRecordToMatchingTags` -/
def reduceTags (u : UTab) (q : List Tag) (r : Record) : Option Record :=
  let rt := summaryTags u r.summary
  if isSubsetOfTags q rt then some r else
  let es := r.entries.filter (fun e => isSubsetOfTags q (rt ++ summaryTags u e.summary))
  if es.isEmpty then none else some { r with entries := es }

/-- `reduceRecordToMatchingEntryTypes` -/
def reduceType (t : EntryType) (r : Record) : Option Record :=
  let es := r.entries.filter (entryMatchesType t)
  if es.isEmpty then none else some { r with entries := es }

/-- one record through all clauses of `service.Filter` -/
def filterOne (u : UTab) (q : Query) (r : Record) : Option Record :=
  if (match q.atDate with | some d => !d.sameDay r.date | none => false) then none else
  if (match q.beforeOrEqual with | some d => !d.afterOrEqual r.date | none => false) then none else
  if (match q.afterOrEqual with | some d => !r.date.afterOrEqual d | none => false) then none else
  let r1 := if q.tags.isEmpty then some r else reduceTags u q.tags r
  match r1 with
  | none => none
  | some r1 => match q.etype with
    | none => some r1
    | some t => reduceType t r1

/-- `service.Filter` -/
def filterRecords (u : UTab) (q : Query) (rs : List Record) : List Record := rs.filterMap (filterOne u q)

/-- Go's insertion sort (used by `sort.Slice` for fewer than 13 elements) with a given `less`. -/
def insertSorted {α} (less : α → α → Bool) (x : α) : List α → List α
  -- `acc` is stored back to front: the element inserted moves towards the front while less(x, prev)
  | [] => [x]
  | y :: ys => if less x y then y :: insertSorted less x ys else x :: y :: ys

def insertionSort {α} (less : α → α → Bool) (xs : List α) : List α :=
  (xs.foldl (fun accRev x => insertSorted less x accRev) []).reverse

/-- `service.Sort`: ascending uses the non-strict `date[j] ≥ date[i]` as `less`. -/
def sortRecords (asc : Bool) (rs : List Record) : List Record :=
  let less (a b : Record) : Bool :=
    let isLess := b.date.afterOrEqual a.date
    if asc then isLess else !isLess
  insertionSort less rs

/-- The CLI's filter flags. -/
structure FilterFlags where
  tags : List Tag := []
  date : Option Date := none
  since : Option Date := none
  until_ : Option Date := none
  after : Option Date := none
  before : Option Date := none
  etype : Option EntryType := none
  period : Option Period := none
  today : Bool := false
  yesterday : Bool := false
  tomorrow : Bool := false
  /-- shortcut period: kind and whether it is the previous one (`--this-week` …, `--last-year`) -/
  shortcut : Option (PeriodKind × Bool) := none
  deriving Repr

/-- `FilterArgs.ApplyFilter`: flags → query; `.panic` where a `PlusDays`/period computation
leaves the calendar. -/
def flagsToQuery (today : Date) (f : FilterFlags) : Res Query := do
  let q : Query := { beforeOrEqual := f.until_, afterOrEqual := f.since, tags := f.tags, atDate := f.date }
  let q := match f.period with
    | some p => { q with beforeOrEqual := some p.until_, afterOrEqual := some p.since }
    | none => q
  let q ← match f.after with
    | some d => (match d.plusDays 1 with | some d' => Res.ok { q with afterOrEqual := some d' } | none => Res.panic)
    | none => Res.ok q
  let q ← match f.before with
    | some d => (match d.plusDays (-1) with | some d' => Res.ok { q with beforeOrEqual := some d' } | none => Res.panic)
    | none => Res.ok q
  let q := if f.today then { q with atDate := some today } else q
  let q ← if f.yesterday then (match today.plusDays (-1) with | some d => Res.ok { q with atDate := some d } | none => Res.panic) else Res.ok q
  let q ← if f.tomorrow then (match today.plusDays 1 with | some d => Res.ok { q with atDate := some d } | none => Res.panic) else Res.ok q
  let q := match f.etype with | some t => { q with etype := some t } | none => q
  match f.shortcut with
  | none => Res.ok q
  | some (k, prev) =>
    let base : Option Date := if prev then previousDate k today else some today
    match base with
    | none => Res.panic
    | some d => match periodOf k d with
      | none => Res.panic
      | some p => Res.ok { q with afterOrEqual := some p.since, beforeOrEqual := some p.until_ }

end KlogV
