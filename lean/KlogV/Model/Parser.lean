/-
The record parser: `parse(block)` of klog/parser/parser.go, as a single pass over the
significant lines of a block.  Core Lean only.
-/
import KlogV.Model.Record
namespace KlogV

/-- `txt.Indentations`, in the order in which `NewIndentator` tries them. -/
def indentations : List (List Char) :=
  [[' ', ' ', ' ', ' '], [' ', ' ', ' '], [' ', ' '], ['\t']]

def indentatorOf (l : List Char) : Option (List Char) := indentations.find? (·.isPrefixOf l)

/-- `PeekUntil(p)`: the longest prefix without a character satisfying `p`. -/
def peekUntil (p : Char → Bool) (s : List Char) : List Char := s.takeWhile (fun c => !p c)

/-- Result of the headline: `none` = the `nil` record (replaced by a dummy in Go). -/
structure Head where
  date : Date
  should : Option Int
  deriving Repr, DecidableEq

/-- Headline section of `parse()`.  Returns the record head (if a date could be read) and the
errors; `.panic` when the should-total is a number that Go cannot represent. -/
def parseHeadline (nr : Nat) (hl : List Char) : Res (Option Head × List Err) :=
  let total : Int := hl.length
  match hl with
  | [] => .ok (none, [⟨nr, 0, 0, .invalidDate⟩])   -- unreachable: significant lines are not empty
  | c0 :: _ =>
  if isSpTab c0 then .ok (none, [⟨nr, 0, total, .illegalIndentation⟩]) else
  let dateText := peekUntil isSpTab hl
  match Date.parse dateText with
  | none => .ok (none, [⟨nr, 0, dateText.length, .invalidDate⟩])
  | some date =>
    let rest := (hl.drop dateText.length).dropWhile isSpTab
    let pos (r : List Char) : Int := total - r.length
    -- tail: after the optional should-total
    let finish (should : Option Int) (r : List Char) : Res (Option Head × List Err) :=
      let r := r.dropWhile isSpTab
      if r.length > 0 then .ok (some ⟨date, should⟩, [⟨nr, pos r, r.length, .unrecognisedTextInHeadline⟩])
      else .ok (some ⟨date, should⟩, [])
    match rest with
    | '(' :: r1 =>
      let r2 := r1.dropWhile isSpTab
      let allProps := peekUntil (· == ')') r2
      if allProps.length == r2.length then   -- no closing parenthesis
        .ok (some ⟨date, none⟩, [⟨nr, total, 1, .malformedPropertiesSyntax⟩])
      else if allProps.length == 0 then
        .ok (some ⟨date, none⟩, [⟨nr, pos r2, 1, .malformedPropertiesSyntax⟩])
      else
        let shouldText := peekUntil (· == '!') r2
        if shouldText.length == r2.length then   -- no exclamation mark
          .ok (some ⟨date, none⟩, [⟨nr, pos r2, (shouldText.length : Int) - 1, .unrecognisedProperty⟩])
        else match Dur.parse shouldText with
          | .panic => .panic
          | .err => .ok (some ⟨date, none⟩, [⟨nr, pos r2, shouldText.length, .malformedShouldTotal⟩])
          | .ok d =>
            let r3 := ((r2.drop shouldText.length).drop 1).dropWhile isSpTab
            match r3 with
            | ')' :: r4 => finish (some d.mins) r4
            | _ => .ok (some ⟨date, some d.mins⟩, [⟨nr, pos r3, (r3.length : Int) - 1, .unrecognisedProperty⟩])
    | _ => finish none rest

/-- What the value part of an entry line parses to. -/
structure ValueOk where
  val : EntryVal
  /-- remaining characters of the line after the value -/
  rest : List Char
  /-- position and length for a possible duplicate-open-range error -/
  startPos : Int
  spanLen : Int
  deriving Repr

inductive ValueRes where
  | ok (v : ValueOk)
  | bad (pos len : Int)        -- `ErrorMalformedEntry`
  | illegalRange (pos len : Int)
  | panic
  deriving Repr

/-- The entry-value closure of `parse()`; `s` is the line after its indentation, `p0` the
character position where `s` starts. -/
def parseValue (p0 : Int) (s : List Char) : ValueRes :=
  let total : Int := p0 + s.length
  let pos (r : List Char) : Int := total - r.length
  let durCand := peekUntil isSpTab s
  match Dur.parse durCand with
  | .panic => .panic
  | .ok d => .ok ⟨.dur d, s.drop durCand.length, p0, durCand.length⟩
  | .err =>
    let startCand := peekUntil (fun c => c == '-' || c == ' ') s
    if startCand.length == 0 then .bad p0 (peekUntil isSpTab s).length else
    match Time.parse startCand with
    | none => .bad p0 startCand.length
    | some start =>
      let r1 := s.drop startCand.length
      let r2 := r1.dropWhile (· == ' ')
      let spaced := r2.length != r1.length
      match r2 with
      | '-' :: r3 =>
        let r4 := r3.dropWhile (· == ' ')
        (match r4 with
        | '?' :: r5 =>
          let rep := peekUntil isSpTab r5
          if rep.all (· == '?') then
            let r6 := r5.drop rep.length
            .ok ⟨.openRange start spaced rep.length, r6, p0, pos r6 - p0⟩
          else .bad (pos r5) rep.length
        | _ =>
          let endCand := peekUntil isSpTab r4
          if endCand.length == 0 then .bad (pos r4) 1 else
          match Time.parse endCand with
          | none => .bad (pos r4) endCand.length
          | some e =>
            let r5 := r4.drop endCand.length
            if e.afterOrEqual start then .ok ⟨.range start e spaced, r5, p0, pos r5 - p0⟩
            else .illegalRange p0 (pos r5 - p0))
      | _ => .bad (pos r2) 1

/-- An entry whose summary may still be continued by following lines. -/
structure Pending where
  val : EntryVal
  summary : List (List Char)
  line : Nat
  startPos : Int
  spanLen : Int
  deriving Repr

structure PState where
  entries : List Entry := []
  errs : List Err := []
  hasOpen : Bool := false
  pending : Option Pending := none
  stopped : Bool := false
  panicked : Bool := false
  deriving Repr

/-- `createEntry(entrySummary)`: add the pending entry, or report a second open range. -/
def PState.commit (st : PState) : PState :=
  match st.pending with
  | none => st
  | some p =>
    if isOpen p.val && st.hasOpen then
      { st with pending := none, errs := st.errs ++ [⟨p.line, p.startPos, p.spanLen, .duplicateOpenRange⟩] }
    else
      { st with pending := none, entries := st.entries ++ [⟨p.val, p.summary⟩],
                hasOpen := st.hasOpen || isOpen p.val }

/-- One line of the entries section. `style` is the record's indentation. -/
def entryStep (style : List Char) (st : PState) (nr : Nat) (l : List Char) : PState :=
  if st.stopped || st.panicked then st else
  let dbl := style ++ style
  match st.pending, dbl.isPrefixOf l with
  | some p, true =>
    -- continuation of the pending entry's summary
    let text := l.drop dbl.length
    if okEntrySummaryCont text then { st with pending := some { p with summary := p.summary ++ [text] } }
    else
      -- the entry itself may be faulty too (a second open range): that is reported first (fix D19)
      let st := st.commit
      { st with errs := st.errs ++ [⟨nr, 0, l.length, .malformedSummary⟩] }
  | _, _ =>
    let st := st.commit
    if !style.isPrefixOf l then
      { st with stopped := true, errs := st.errs ++ [⟨nr, 0, l.length, .illegalIndentation⟩] }
    else
      let s := l.drop style.length
      if (match s with | c :: _ => isSpTab c | [] => false) then
        { st with stopped := true, errs := st.errs ++ [⟨nr, 0, l.length, .illegalIndentation⟩] }
      else match parseValue style.length s with
        | .panic => { st with panicked := true }
        | .bad pos len => { st with errs := st.errs ++ [⟨nr, pos, len, .malformedEntry⟩] }
        | .illegalRange pos len => { st with errs := st.errs ++ [⟨nr, pos, len, .illegalRange⟩] }
        | .ok v =>
          let first : List Char := match v.rest with
            | c :: r => if isSpTab c then r else []
            | [] => []
          { st with pending := some ⟨v.val, [first], nr, v.startPos, v.spanLen⟩ }

def entriesGo (style : List Char) : PState → Nat → List (List Char) → PState
  | st, _, [] => st.commit
  | st, nr, l :: ls => entriesGo style (entryStep style st nr l) (nr + 1) ls

/-- Record-summary section: consumes lines until the first indented one. -/
def summaryGo : Nat → List (List Char) → List (List Char) × List Err × Nat × List (List Char)
  | nr, [] => ([], [], nr, [])
  | nr, l :: ls =>
    match indentatorOf l with
    | some _ => ([], [], nr, l :: ls)
    | none =>
      let (sum, errs, nr', rest) := summaryGo (nr + 1) ls
      if okRecordSummaryLine l then (l :: sum, errs, nr', rest)
      else (sum, ⟨nr, 0, l.length, .malformedSummary⟩ :: errs, nr', rest)

inductive ParseOut where
  | record (r : Record)
  | errors (es : List Err)
  | panic
  deriving Repr, DecidableEq

/-- `parse(block)`: `offset` is the number of leading blank lines of the block, `lines` its
significant lines decoded to characters. -/
def parseRecord (offset : Nat) (lines : List (List Char)) : ParseOut :=
  match lines with
  | [] => .errors []      -- unreachable: a block has at least one significant line
  | hl :: rest =>
    match parseHeadline offset hl with
    | .panic => .panic
    | .err => .panic
    | .ok (head, herrs) =>
      let (sum, serrs, nr, rest2) := summaryGo (offset + 1) rest
      let style := (rest2.head?.bind indentatorOf).getD []
      let st := entriesGo style {} nr rest2
      if st.panicked then .panic else
      let errs := herrs ++ serrs ++ st.errs
      match head, errs with
      | some h, [] => .record ⟨h.date, h.should, sum, st.entries⟩
      | _, _ => .errors errs

end KlogV
