/-
Canonical one-line renderings of model values, compared verbatim with the renderings the Go
harness produces from the implementation's values.  Core Lean only.
-/
import KlogV.Model.Document
namespace KlogV

def hexDigit (n : Nat) : Char := if n < 10 then Char.ofNat (48 + n) else Char.ofNat (87 + n)

def hexOfBytes (bs : Bytes) : String :=
  String.ofList (bs.flatMap (fun b => [hexDigit (b.toNat / 16), hexDigit (b.toNat % 16)]))

def hexOfChars (cs : List Char) : String := hexOfBytes (encode cs)

def hexVal (c : Char) : Nat :=
  if '0' ≤ c && c ≤ '9' then c.toNat - 48 else if 'a' ≤ c && c ≤ 'f' then c.toNat - 87 else 0

def bytesOfHexAux : List Char → Bytes
  | a :: b :: r => (hexVal a * 16 + hexVal b).toUInt8 :: bytesOfHexAux r
  | _ => []

/-- `-` denotes the empty string. -/
def bytesOfHex (s : String) : Bytes := if s == "-" then [] else bytesOfHexAux s.toList

def hexOrDash (s : String) : String := if s.isEmpty then "-" else s

def commaSep (xs : List String) : String := ",".intercalate xs

def canonLinesC (ls : List (List Char)) : String := "[" ++ commaSep (ls.map (fun l => hexOrDash (hexOfChars l))) ++ "]"

def b01 (b : Bool) : String := if b then "1" else "0"

def canonTime (t : Time) : String := s!"{t.h}:{t.min}:{t.shift}:{b01 t.is24}"

def canonVal : EntryVal → String
  | .range s e sp => s!"T({canonTime s},{canonTime e},{b01 sp})"
  | .dur d => s!"D({d.mins},{String.ofList d.print})"
  | .openRange s sp x => s!"O({canonTime s},{b01 sp},{x})"

def canonEntry (e : Entry) : String := canonVal e.val ++ ":" ++ canonLinesC e.summary

def canonRecord (r : Record) : String :=
  s!"R({String.ofList r.date.print},{r.shouldMins},{canonLinesC r.summary},[{commaSep (r.entries.map canonEntry)}])"

def canonGErr (e : GErr) : String :=
  let lt := match e.lineText with | some t => hexOrDash (hexOfBytes t) | none => "PANIC"
  s!"E({e.lineNumber},{e.pos},{e.len},{e.code.name},{lt})"

def canonEnding : Ending → String
  | .none => "n" | .lf => "l" | .crlf => "c"

def canonLine (l : Line) : String := hexOrDash (hexOfBytes l.text) ++ "/" ++ canonEnding l.ending

def canonBlock (first : Nat) (b : List Line) : String := s!"B({first};{commaSep (b.map canonLine)})"

def canonBlocks (bs : List (List Line)) : String :=
  " ".intercalate ((bs.zip (firstLineIndices 0 bs)).map (fun (b, i) => canonBlock i b))

def canonDoc : DocOut → String
  | .panic => "panic"
  | .errors es => "errors " ++ " ".intercalate (es.map canonGErr)
  | .records rs bos => "records " ++ " ".intercalate (rs.map canonRecord) ++ " | " ++
      " ".intercalate (bos.map (fun bo => canonBlock bo.first bo.lines))

end KlogV
