/-
The mutating commands: track, start, stop, switch, pause, create — from command-line level
arguments and a clock down to the new file contents.
Mirrors klog/app/cli/{track,start,stop,switch,pause,create}.go, klog/app/cli/util/args.go
(AtDate, AtTime, DateFormat, TimeFormat, SummaryArgs), klog/service/rounding.go and
klog/app/context.go (ReconcileFile, ApplyReconciler).
-/
import KlogV.Model.Reconciler
import KlogV.Model.Query
namespace KlogV

structure Config where
  rounding : Option Nat := none
  should : Option Int := none
  dateDashes : Option Bool := none
  time24 : Option Bool := none
  deriving Repr

inductive DateSel where
  | default | today | yesterday | tomorrow | explicit (d : Date)
  deriving Repr

structure AtArgs where
  date : DateSel := .default
  time : Option Time := none
  round : Option Nat := none
  deriving Repr

structure SummaryArgs where
  text : Option (List Bytes) := none
  resume : Bool := false
  resumeNth : Int := 0
  deriving Repr

inductive Cmd where
  | track (d : DateSel) (entry : List Bytes)
  | start (a : AtArgs) (s : SummaryArgs)
  | stop (a : AtArgs) (summary : Option (List Bytes))
  | switch (a : AtArgs) (s : SummaryArgs)
  /-- `ticks`: the wall-clock difference in whole minutes (`diffInMinutes(now, start)`) read at
  every iteration of the endless loop -/
  | pause (summary : Option (List Bytes)) (noTags : Bool) (extend : Bool) (ticks : List Int)
  | create (d : DateSel) (should : Option Int) (summary : Option (List Bytes))
  deriving Repr

inductive CmdOut where
  | ok (file : Bytes)
  | fail
  | panic
  deriving Repr, DecidableEq

/-- `AtDateArgs.AtDate(now)`; `none` = PlusDays panics -/
def atDate (sel : DateSel) (today : Date) : Option Date :=
  match sel with
  | .explicit d => some d
  | .yesterday => today.plusDays (-1)
  | .tomorrow => today.plusDays 1
  | _ => some today

def DateSel.isExplicit : DateSel → Bool
  | .explicit _ => true
  | _ => false

/-- `AtDateArgs.DateFormat(config)` -/
def dateFormatOf (sel : DateSel) (cfg : Config) : Reformat Bool :=
  if sel.isExplicit then .none else
  match cfg.dateDashes with | some x => .explicit x | none => .auto

/-- `AtDateAndTimeArgs.TimeFormat(config)` -/
def timeFormatOf (a : AtArgs) (cfg : Config) : Reformat Bool :=
  if a.time.isSome then .none else
  match cfg.time24 with | some x => .explicit x | none => .auto

/-- `service.RoundToNearest(t, r)` for an unshifted time -/
def roundToNearest (t : Time) (v : Nat) : Time :=
  let off := t.offset
  let rem := off % v
  let up : Int := if rem ≥ ((v / 2 + v % 2 : Nat) : Int) then v else 0
  match (⟨0, 0, 0, true⟩ : Time).plus (off - rem + up) with
  | some r => r
  | none => ⟨23, 59, 1, true⟩

/-- `AtDateAndTimeArgs.AtTime(now, config)`: `.err` = app error, `.panic` = PlusDays panics -/
def atTime (a : AtArgs) (now : Instant) (cfg : Config) : Res Time :=
  match a.time with
  | some t => .ok t
  | none =>
    match atDate a.date now.date, now.date.plusDays (-1), now.date.plusDays 1 with
    | some date, some yesterday, some tomorrow =>
      let t := now.time
      let t := match a.round with
        | some r => roundToNearest t r
        | none => match cfg.rounding with | some r => roundToNearest t r | none => t
      if now.date.sameDay date then .ok t
      else if yesterday.sameDay date then (match t.plus 1440 with | some s => .ok s | none => .err)
      else if tomorrow.sameDay date then (match t.plus (-1440) with | some s => .ok s | none => .err)
      else .err
    | _, _, _ => .panic

/-- `findNthEntry` -/
def findNthEntry (r : Record) (nr : Int) : Option Entry :=
  let n : Int := r.entries.length
  let i : Int := if nr > 0 then nr - 1 else n + nr
  if i < 0 || i > n - 1 then none else r.entries[i.toNat]?

def summaryBytes (e : Entry) : List Bytes := e.summary.map bytesOfChars

/-- `SummaryArgs.Summary(current, previous)`: `none` = error -/
def summaryOf (s : SummaryArgs) (cur : Record) (prev : Option Record) : Option (List Bytes) :=
  if s.text.isSome && (s.resume || s.resumeNth != 0) then none else
  if s.resume && s.resumeNth != 0 then none else
  match s.text with
  | some t => some t
  | none =>
    if s.resume then
      match findNthEntry cur (-1) with
      | some e => some (summaryBytes e)
      | none => match prev.bind (fun p => findNthEntry p (-1)) with
        | some e => some (summaryBytes e)
        | none => some []
    else if s.resumeNth != 0 then (findNthEntry cur s.resumeNth).map summaryBytes
    else some []

/-- `PreviousRecordSpy`: the first record (in file order) among those with the latest date
strictly before `date`. -/
def previousRecord (date : Date) (rs : List Record) : Option Record :=
  let before := rs.filter (fun r => !r.date.afterOrEqual date)
  before.foldl (fun (best : Option Record) r =>
    match best with
    | none => some r
    | some b => if r.date.afterOrEqual b.date && !r.date.sameDay b.date then some r else some b) none

/-- `ReconcileFile`: parse, pick the first eligible creator, apply the steps, re-parse, write. -/
def reconcileFile (file : Bytes) (creators : List Record → List BlockOut → Option Reconciler)
    (steps : List (Reconciler → Res Reconciler)) : CmdOut × Option Record :=
  match parseDoc file with
  | .panic => (.panic, none)
  | .errors _ => (.fail, none)
  | .records rs bos =>
    match creators rs bos with
    | none => (.fail, none)
    | some r0 =>
      match steps.foldl (fun (acc : Res Reconciler) st => acc.bind st) (Res.ok r0) with
      | .panic => (.panic, none)
      | .err => (.fail, none)
      | .ok r => match r.makeResult with
        | .ok (text, rec) => (.ok text, some rec)
        | .err => (.fail, none)
        | .panic => (.panic, none)

def optRes {α} : Option α → Res α
  | some a => .ok a
  | none => .err

def firstCreator (cs : List (Option Reconciler)) : Option Reconciler := cs.findSome? id

/-- the endless loop of `klog pause`: for every clock reading, extend by what is not yet captured -/
def pauseLoop (today yesterday : Date) : List Int → Int → Bytes → CmdOut
  | [], _, file => .ok file
  | t :: ts, captured, file =>
    let inc := t - captured
    if inc > 0 then
      match (reconcileFile file
          (fun rs bos => firstCreator [reconcilerAtRecord today rs bos, reconcilerAtRecord yesterday rs bos])
          [fun r => r.extendPause (-inc)]).1 with
      | .ok file' => pauseLoop today yesterday ts (captured + inc) file'
      | .fail => .fail
      | .panic => .panic
    else pauseLoop today yesterday ts captured file

/-- Run one mutating command. `now` is the clock reading the command takes at its start. -/
def runCmd (u : UTab) (cfg : Config) (now : Instant) (cmd : Cmd) (file : Bytes) : CmdOut :=
  match cmd with
  | .track sel entry =>
    match atDate sel now.date with
    | none => .panic
    | some date =>
      (reconcileFile file
        (fun rs bos => firstCreator [reconcilerAtRecord date rs bos,
          some (reconcilerForNewRecord date (dateFormatOf sel cfg) { should := cfg.should } rs bos)])
        [fun r => optRes (r.appendEntry entry)]).1
  | .create sel should summary =>
    match atDate sel now.date with
    | none => .panic
    | some date =>
      let sh := match should with | some s => some s | none => cfg.should
      (reconcileFile file
        (fun rs bos => some (reconcilerForNewRecord date (dateFormatOf sel cfg) { should := sh, summary := summary } rs bos))
        []).1
  | .start a s =>
    match atDate a.date now.date, atTime a now cfg with
    | none, _ => .panic
    | _, .panic => .panic
    | _, .err => .fail
    | some date, .ok time =>
      match parseDoc file with
      | .records rs0 _ =>
        let prev := previousRecord date rs0
        (reconcileFile file
          (fun rs bos => firstCreator [reconcilerAtRecord date rs bos,
            some (reconcilerForNewRecord date (dateFormatOf a.date cfg) { should := cfg.should } rs bos)])
          [fun r => match summaryOf s r.record prev with
            | none => .err
            | some sm => optRes (r.startOpenRange time (timeFormatOf a cfg) sm)]).1
      | .errors _ => .fail
      | .panic => .panic
  | .stop a summary =>
    match atDate a.date now.date, atTime a now cfg with
    | none, _ => .panic
    | _, .panic => .panic
    | _, .err => .fail
    | some date, .ok time =>
      -- the preceding day is only computed (and can only be unrepresentable) when no explicit
      -- date or time is given (fix D20)
      let auto := !a.date.isExplicit && a.time.isNone
      match (if auto then date.plusDays (-1) else some date) with
      | none => .panic
      | some yesterday =>
        (reconcileFile file
          (fun rs bos => firstCreator [reconcilerAtRecord date rs bos,
            if auto then reconcilerAtRecord yesterday rs bos else none])
          [fun r =>
            let t : Option Time := if auto && r.record.date.sameDay yesterday then time.plus 1440 else some time
            match t with
            | none => .err
            | some t => optRes (r.closeOpenRange t (timeFormatOf a cfg) (summary.getD []))]).1
  | .switch a s =>
    match atDate a.date now.date, atTime a now cfg with
    | none, _ => .panic
    | _, .panic => .panic
    | _, .err => .fail
    | some date, .ok time =>
      (reconcileFile file
        (fun rs bos => reconcilerAtRecord date rs bos)
        [fun r => optRes (r.closeOpenRange time (timeFormatOf a cfg) []),
         fun r => match summaryOf s r.record none with
           | none => .err
           | some sm => optRes (r.startOpenRange time (timeFormatOf a cfg) sm)]).1
  | .pause summary noTags extend ticks =>
    if extend && summary.isSome then .fail else
    match now.date.plusDays (-1) with
    | none => .panic
    | some yesterday =>
      match (reconcileFile file
          (fun rs bos => firstCreator [reconcilerAtRecord now.date rs bos, reconcilerAtRecord yesterday rs bos])
          [fun r => if extend then r.extendPause 0 else optRes (r.appendPause u (summary.getD []) (!noTags))]).1 with
      | .ok file' => pauseLoop now.date yesterday ticks 0 file'
      | o => o

end KlogV
