/-
Evaluation views: `klog report` rows, `klog today` split, `print --with-totals` prefixes.
Mirrors klog/app/cli/report.go (groupByDate, allDatesRange, rows), klog/app/cli/today.go
(splitIntoCurrentAndOther), klog/app/cli/print.go (printWithDurations).
-/
import KlogV.Model.Query
namespace KlogV

/-- `groupByDate`: groups in order of first occurrence: (hash, date of the first record, records) -/
def groupByHash (k : PeriodKind) (rs : List Record) : List (Nat × Date × List Record) :=
  rs.foldl (fun acc r =>
    let h := hashOf k r.date
    if acc.any (·.1 == h) then acc.map (fun g => if g.1 == h then (g.1, g.2.1, g.2.2 ++ [r]) else g)
    else acc ++ [(h, r.date, [r])]) []

/-- `allDatesRange(from, to)`: all dates from `from` until `to` is reached (`none` = panic). -/
def allDatesRange (from_ to : Date) : Nat → Option (List Date)
  | 0 => some [from_]
  | fuel + 1 =>
    if from_.afterOrEqual to then some [from_] else
    match from_.plusDays 1 with
    | none => none
    | some nx => (allDatesRange nx to fuel).map (from_ :: ·)

structure Row where
  date : Date
  total : Option (Int × Int)     -- total and should-total of the row, `none` for a filled gap
  deriving Repr

/-- rows of the report for records that are already filtered; `none` = panic -/
def reportRows (k : PeriodKind) (fill : Bool) (rs : List Record) : Option (List Row) :=
  let sorted := sortRecords true rs
  match sorted, sorted.getLast? with
  | first :: _, some last =>
    let groups := groupByHash k sorted
    let dates : Option (List Date) :=
      if fill then allDatesRange first.date last.date ((dayNumber last.date - dayNumber first.date).toNat + 1)
      else some (groups.map (·.2.1))
    dates.map fun ds =>
      let step (acc : List Nat × List Row) (d : Date) : List Nat × List Row :=
        let h := hashOf k d
        if acc.1.contains h then acc else
        let row : Row := match groups.find? (fun g => g.1 == h) with
          | some g => ⟨d, some (totalMins g.2.2, shouldSum g.2.2)⟩
          | none => ⟨d, none⟩
        (h :: acc.1, acc.2 ++ [row])
      (ds.foldl step ([], [])).2
  | _, _ => some []

/-- `splitIntoCurrentAndOther`: (current, other, isYesterday); `none` = panic (no yesterday) -/
def splitCurrentOther (today : Date) (rs : List Record) : Option (List Record × List Record × Bool) :=
  (today.plusDays (-1)).map fun yesterday =>
    let t := rs.filter (fun r => r.date.sameDay today)
    let y := rs.filter (fun r => !r.date.sameDay today && r.date.sameDay yesterday)
    let o := rs.filter (fun r => !r.date.sameDay today && !r.date.sameDay yesterday)
    if !t.isEmpty then (t, o ++ y, false)
    else if !y.isEmpty then (y, o, true)
    else ([], o, false)

end KlogV
