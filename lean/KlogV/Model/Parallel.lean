/-
The parallel batch parser: chunking, per-batch work, merge with carried-over text.
Mirrors klog/parser/engine/parallel.go.  Everything is expressed over the *block structure*
(`blocksOf` on bytes): since `parse(block)` is a function of the block's lines alone, equal
block lists mean equal records, equal errors and equal line numbers.  Core Lean only.
-/
import KlogV.Model.Lines
namespace KlogV

/-- `utf8.RuneStart` -/
def isRuneStart (b : UInt8) : Bool := b &&& 0xC0 != 0x80

/-- A cut in front of byte `b` (preceded by byte `prev`) is not allowed inside a UTF-8 sequence
and not between the CR and the LF of a CRLF line ending. -/
def badCut (prev b : UInt8) : Bool := !isRuneStart b || (b == LF && prev == CR)

/-- advance to the next allowed cut: returns how many bytes are skipped -/
def skipCut (prev : UInt8) : Bytes → Nat
  | [] => 0
  | b :: r => if badCut prev b then 1 + skipCut b r else 0

/-- `splitIntoChunks(txt, n)` for a positive `size = ceil(len/n)`: `n` chunks. -/
def chunksGo (size : Nat) : Nat → Bytes → List Bytes
  | 0, _ => []
  | n + 1, t =>
    if size > t.length then t :: List.replicate n []
    else
      let k := size + skipCut ((t.drop (size - 1)).headD 0) (t.drop size)
      t.take k :: chunksGo size n (t.drop k)

def splitIntoChunks (t : Bytes) (n : Nat) : List Bytes :=
  chunksGo ((t.length + n - 1) / n) n t

/-- What a worker returns for its batch: head text, complete middle blocks, tail text. -/
structure Batch where
  head : Bytes
  middle : List (List Line)
  tail : Bytes
  deriving Repr, DecidableEq

/-- bytes of the first block of a text (all of it if there is no significant line):
the `bytesConsumed` of `txt.ParseBlock`. -/
def firstBlockBytes (t : Bytes) : Nat :=
  match blocksOf t with
  | [] => t.length
  | b :: _ => countBytes b

/-- the `work` closure of `Parse` -/
def processBatch (t : Bytes) : Batch :=
  if t.isEmpty then ⟨[], [], []⟩ else
  let h := firstBlockBytes t
  if h == t.length then ⟨t, [], []⟩ else
  let rest := t.drop h
  let bs := blocksOf rest
  match bs.getLast? with
  | none => ⟨t.take h, [], rest⟩
  | some last =>
    let consumed := (bs.map countBytes).sum
    ⟨t.take h, bs.dropLast, rest.drop (consumed - countBytes last)⟩

/-- The merge loop of `Parse`: `acc` are the blocks so far, `carry` the carried-over text. -/
def mergeGo : List (List Line) → Bytes → List Batch → List (List Line)
  | acc, carry, [] => acc ++ blocksOf carry
  | acc, carry, b :: bs =>
    let carry := carry ++ b.head
    if b.middle.length > 0 then mergeGo (acc ++ blocksOf carry ++ b.middle) b.tail bs
    else mergeGo acc (carry ++ b.tail) bs

/-- Blocks found by the parallel parser for a given list of chunks. -/
def parallelBlocksOfChunks (chunks : List Bytes) : List (List Line) :=
  mergeGo [] [] (chunks.map processBatch)

/-- `ParallelBatchParser.Parse` (block structure) with `n` workers. -/
def parallelBlocks (t : Bytes) (n : Nat) : List (List Line) :=
  parallelBlocksOfChunks (splitIntoChunks t n)

/-- `processAsync`: results are stored by batch index, whatever the arrival order. -/
def collect {α} [Inhabited α] (n : Nat) (arrivals : List (Nat × α)) : List α :=
  (List.range n).map (fun i => match arrivals.find? (fun p => p.1 == i) with | some p => p.2 | none => default)

end KlogV
