/-
Text layer of klog, on bytes: lines, line endings, blank lines, blocks.
Mirrors klog/parser/txt/line.go and klog/parser/txt/block.go (ParseBlock) and the loop of
klog/parser/engine/serial.go (mapParse).  Core Lean only.
-/
namespace KlogV

abbrev Bytes := List UInt8

def LF : UInt8 := 10
def CR : UInt8 := 13
def SP : UInt8 := 32
def TAB : UInt8 := 9

/-- Split a text into raw lines, each including its terminating `\n` (the last one may have
none).  `ParseBlock` cuts after every `\n` and at the end of the text. -/
def splitRaw : Bytes → List Bytes
  | [] => []
  | b :: rest =>
    if b = LF then [LF] :: splitRaw rest
    else match splitRaw rest with
      | [] => [[b]]
      | l :: ls => (b :: l) :: ls

inductive Ending where
  | none | lf | crlf
  deriving DecidableEq, Repr, Inhabited

def Ending.bytes : Ending → Bytes
  | .none => []
  | .lf => [LF]
  | .crlf => [CR, LF]

structure Line where
  text : Bytes
  ending : Ending
  deriving DecidableEq, Repr, Inhabited

/-- `txt.NewLineFromString`: `\r\n` is tried before `\n`. -/
def Line.ofRaw (raw : Bytes) : Line :=
  match raw.reverse with
  | 10 :: 13 :: r => ⟨r.reverse, .crlf⟩
  | 10 :: r => ⟨r.reverse, .lf⟩
  | _ => ⟨raw, .none⟩

/-- `Line.Original()` -/
def Line.original (l : Line) : Bytes := l.text ++ l.ending.bytes

def isBlankByte (b : UInt8) : Bool := b == SP || b == TAB

/-- `Line.IsBlank()`: only spaces and tabs (or nothing). -/
def Line.isBlank (l : Line) : Bool := l.text.all isBlankByte

def splitLines (t : Bytes) : List Line := (splitRaw t).map Line.ofRaw

def joinLines (ls : List Line) : Bytes := (ls.map Line.original).flatten

inductive Mode where
  | pre | sig | post
  deriving DecidableEq, Repr

/-- Single left-to-right pass that cuts a list of lines into blocks: leading blank lines,
significant lines, trailing blank lines (the three modes of `ParseBlock`); a new block starts at
the first significant line after trailing blank lines.  Lines that are never followed by a
significant line while still in mode `pre` (an all-blank text) belong to no block. -/
def blocksGo : Mode → List Line → List Line → List (List Line)
  | .pre, _, [] => []
  | _, cur, [] => [cur]
  | .pre, cur, l :: ls =>
    if l.isBlank then blocksGo .pre (cur ++ [l]) ls else blocksGo .sig (cur ++ [l]) ls
  | .sig, cur, l :: ls =>
    if l.isBlank then blocksGo .post (cur ++ [l]) ls else blocksGo .sig (cur ++ [l]) ls
  | .post, cur, l :: ls =>
    if l.isBlank then blocksGo .post (cur ++ [l]) ls else cur :: blocksGo .sig [l] ls

def blocksOfLines (ls : List Line) : List (List Line) := blocksGo .pre [] ls

/-- All blocks of a text (what `mapParse` iterates over). -/
def blocksOf (t : Bytes) : List (List Line) := blocksOfLines (splitLines t)

/-- `Block.SignificantLines()`: (significant lines, number of leading blank lines,
number of trailing blank lines). -/
def significant (b : List Line) : List Line × Nat × Nat :=
  let head := b.takeWhile Line.isBlank
  let rest := b.dropWhile Line.isBlank
  let sig := rest.takeWhile (fun l => !l.isBlank)
  (sig, head.length, b.length - head.length - sig.length)

/-- The global index of the first line of every block. -/
def firstLineIndices : Nat → List (List Line) → List Nat
  | _, [] => []
  | n, b :: bs => n :: firstLineIndices (n + b.length) bs

def countBytes (b : List Line) : Nat := (joinLines b).length

end KlogV
