/-
Warnings: `service.CheckForWarnings` and its four checkers (klog/service/warning.go), with the
normalised date-times of klog/service/datetime.go.  Every evaluation command and every mutating
command (after the file has been written) runs this on the records it has read, unless `--no-warn`
is given.  Go panic sites (`Date.PlusDays` at the ends of the calendar, overflowing totals) are
explicit `.panic` outcomes.  Core Lean only.
-/
import KlogV.Model.Query
namespace KlogV

/-- `service.DateTime`: a date and a time of that day (no shift). -/
structure DateTime where
  date : Date
  h : Nat
  min : Nat
  deriving Repr, DecidableEq

/-- `service.NewDateTime(d, t)`: a shifted time moves the date; `none` = Go panics
(`UNREPRESENTABLE_DATE`). -/
def DateTime.mk' (d : Date) (t : Time) : Option DateTime :=
  let off : Int := if t.shift > 0 then 1 else if t.shift < 0 then -1 else 0
  (d.plusDays off).map fun d' => ⟨d', t.h, t.min⟩

/-- `DateTime.IsAfterOrEqual` -/
def DateTime.afterOrEqual (a b : DateTime) : Bool :=
  if a.date.sameDay b.date then (a.h * 60 + a.min ≥ b.h * 60 + b.min) else a.date.afterOrEqual b.date

/-- the four checkers, in the order `CheckForWarnings` runs them -/
inductive WarnKind where
  | unclosedOpenRange | futureEntries | overlappingRanges | moreThan24h
  deriving Repr, DecidableEq

def WarnKind.name : WarnKind → String
  | .unclosedOpenRange => "UNCLOSED_OPEN_RANGE"
  | .futureEntries => "FUTURE_ENTRIES"
  | .overlappingRanges => "OVERLAPPING_RANGES"
  | .moreThan24h => "MORE_THAN_24H"

def WarnKind.message : WarnKind → String
  | .unclosedOpenRange => "Unclosed open range"
  | .futureEntries => "Entry in the future"
  | .overlappingRanges => "Overlapping time ranges"
  | .moreThan24h => "Total time exceeds 24 hours"

/-- `DisabledCheckers` (from the `no_warnings` setting) -/
structure Disabled where
  unclosed : Bool := false
  future : Bool := false
  overlapping : Bool := false
  moreThan24h : Bool := false
  deriving Repr, DecidableEq

/-- `unclosedOpenRangeChecker.Warn`: returns (warn?, encounteredRecordAtToday'). -/
def warnUnclosed (today : Date) (seenToday : Bool) (r : Record) : Res (Bool × Bool) :=
  if r.date.sameDay today then .ok (false, true)
  else if !seenToday then
    match today.plusDays (-1) with
    | none => .panic
    | some y => if y.sameDay r.date then .ok (false, seenToday) else .ok (r.hasOpen, seenToday)
  else .ok (r.hasOpen, seenToday)

/-- one entry of a record dated yesterday / today / tomorrow: does it lie in the future? -/
def entryInFuture (now : Instant) (fuzzy : DateTime) (d : Date) (e : Entry) : Res Bool :=
  match e.val with
  | .range s t _ =>
    match DateTime.mk' d s with
    | none => .panic
    | some a =>
      if a.afterOrEqual fuzzy then .ok true else
      match DateTime.mk' d t with
      | none => .panic
      | some b => .ok (b.afterOrEqual fuzzy)
  | .dur _ =>
    match now.date.plusDays 1 with
    | none => .panic
    | some tm => .ok (d.afterOrEqual tm)
  | .openRange s _ _ =>
    match DateTime.mk' d s with
    | none => .panic
    | some a => .ok (a.afterOrEqual fuzzy)

/-- `futureEntriesChecker.Warn` (grace period 31 minutes) -/
def warnFuture (now : Instant) (r : Record) : Res Bool :=
  if r.entries.isEmpty then .ok false else
  match now.date.plusDays (-2) with
  | none => .panic
  | some d2 =>
    if d2.afterOrEqual r.date then .ok false else
    -- `||` short-circuits: each `PlusDays` is evaluated only if the tests before it failed
    let near : Res Bool :=
      match now.date.plusDays (-1) with
      | none => .panic
      | some y =>
        if y.sameDay r.date then .ok true
        else if now.date.sameDay r.date then .ok true
        else match now.date.plusDays 1 with
          | none => .panic
          | some tm => .ok (tm.sameDay r.date)
    near.bind fun isNear =>
      if !isNear then .ok true else
      let fuzzy : Res DateTime :=
        match now.time.plus 31 with
        | none => .ok ⟨now.date, now.h, now.min⟩
        | some inc => match DateTime.mk' now.date inc with
          | none => .panic
          | some f => .ok f
      fuzzy.bind fun fz =>
        let count : Res Nat := r.entries.foldl (fun acc e => acc.bind fun n =>
          (entryInFuture now fz r.date e).map fun b => if b then n + 1 else n) (.ok 0)
        count.map fun n => n != 0

/-- the ranges `overlappingTimeRangesChecker` looks at: (start, end) offsets; an open range is
taken to end at 23:59 when that is not before its start -/
def overlapRanges (es : List Entry) : List (Int × Int) :=
  es.filterMap fun e => match e.val with
    | .range s t _ => some (s.offset, t.offset)
    | .dur _ => none
    | .openRange s _ _ => if (23 * 60 + 59 : Int) ≥ s.offset then some (s.offset, 23 * 60 + 59) else none

/-- the scan over the sorted ranges: a range that is not a point in time and starts before the
end of its predecessor in the sorted order overlaps -/
def overlapScan : Option (Int × Int) → List (Int × Int) → Bool
  | _, [] => false
  | none, x :: xs => overlapScan (some x) xs
  | some p, x :: xs => if x.1 != x.2 && !(x.1 ≥ p.2) then true else overlapScan (some x) xs

/-- `overlappingTimeRangesChecker.Warn` (for at most 12 ranges, where Go's `sort.Slice` is an
insertion sort; `less(i, j) = start[j] ≥ start[i]`) -/
def warnOverlap (r : Record) : Bool :=
  overlapScan none (insertionSort (fun a b => b.1 ≥ a.1) (overlapRanges r.entries))

/-- `moreThan24HoursChecker.Warn`; `.panic` = the record's total overflows (finding D12) -/
def warnMoreThan24h (r : Record) : Res Bool := (sumRes (r.entries.map Entry.minutes)).map fun t => t > 1440

/-- `CheckForWarnings`: records sorted by date, newest first; for each record the enabled checkers
in order.  The result lists (date, checker) in the order the warnings are issued. -/
def checkWarnings (now : Instant) (dis : Disabled) (rs : List Record) : Res (List (Date × WarnKind)) :=
  let step (acc : Res (List (Date × WarnKind) × Bool)) (r : Record) : Res (List (Date × WarnKind) × Bool) :=
    acc.bind fun (out, seen) =>
      (if dis.unclosed then Res.ok (false, seen) else warnUnclosed now.date seen r).bind fun (w1, seen') =>
      (if dis.future then Res.ok false else warnFuture now r).bind fun w2 =>
      let w3 := if dis.overlapping then false else warnOverlap r
      (if dis.moreThan24h then Res.ok false else warnMoreThan24h r).bind fun w4 =>
        .ok (out ++ (if w1 then [(r.date, WarnKind.unclosedOpenRange)] else [])
                 ++ (if w2 then [(r.date, WarnKind.futureEntries)] else [])
                 ++ (if w3 then [(r.date, WarnKind.overlappingRanges)] else [])
                 ++ (if w4 then [(r.date, WarnKind.moreThan24h)] else []), seen')
  ((sortRecords false rs).foldl step (.ok ([], false))).map (·.1)

end KlogV
