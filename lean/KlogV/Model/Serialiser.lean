/-
Canonical serialisation (unstyled): `parser.SerialiseRecords` + `Lines.ToString`.
Mirrors klog/parser/serialiser.go.
-/
import KlogV.Model.Record
namespace KlogV

def canonicalIndent : List Char := [' ', ' ', ' ', ' ']

def entryLines (e : Entry) : List (List Char) :=
  let first := canonicalIndent ++ e.val.print ++
    (match e.summary with
     | l :: _ => if l.isEmpty then [] else ' ' :: l
     | [] => [])
  first :: (e.summary.drop 1).map (fun l => canonicalIndent ++ canonicalIndent ++ l)

/-- `serialiseRecord` (texts of the lines) -/
def recordLines (r : Record) : List (List Char) :=
  let head := r.date.print ++
    (if r.shouldMins != 0 then [' ', '('] ++ (Dur.print ⟨r.shouldMins, false, 0⟩) ++ ['!', ')'] else [])
  head :: r.summary ++ r.entries.flatMap entryLines

/-- `SerialiseRecords(...).ToString()`: records separated by one empty line, every line ends
with `\n`. -/
def printRecords : List Record → List Char
  | [] => []
  | [r] => (recordLines r).flatMap (· ++ ['\n'])
  | r :: rs => (recordLines r).flatMap (· ++ ['\n']) ++ ['\n'] ++ printRecords rs

end KlogV
