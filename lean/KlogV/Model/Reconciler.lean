/-
The reconciler: minimally invasive edits of the file's lines.
Mirrors klog/parser/reconciling/{reconciler,creator,style,style_reformat,append_entry,
start_open_range,close_open_range,pause_open_range}.go.  Lines are bytes; the record the edits
refer to is the parsed one.  Core Lean only.
-/
import KlogV.Model.Document
import KlogV.Model.Tags
namespace KlogV

/-! ## Style -/

structure Style where
  lineEnding : Ending × Bool := (.lf, false)
  indentation : Bytes × Bool := ([32, 32, 32, 32], false)
  dateDashes : Bool × Bool := (true, false)
  time24 : Bool × Bool := (true, false)
  spaced : Bool × Bool := (true, false)
  extraQ : Nat × Bool := (0, false)
  deriving Repr, DecidableEq

def indentationBytes : List Bytes := [[32, 32, 32, 32], [32, 32, 32], [32, 32], [9]]

/-- `Line.Indentation()` -/
def lineIndentation (l : Line) : Option Bytes := indentationBytes.find? (·.isPrefixOf l.original)

def significantLines (b : List Line) : List Line := (significant b).1

/-- `determine(record, block)` -/
def determine (r : Record) (b : List Line) : Style :=
  let s : Style := { dateDashes := (r.date.dashes, true) }
  let s := r.entries.foldl (fun (s : Style) e =>
    match e.val with
    | .range st _ sp => { s with time24 := (st.is24, true), spaced := (sp, true) }
    | .dur _ => s
    | .openRange st sp x => { s with time24 := (st.is24, true), spaced := (sp, true), extraQ := (x, true) }) s
  let s := match (significantLines b).findSome? lineIndentation with
    | some i => { s with indentation := (i, true) }
    | none => s
  match b.head? with
  | some l => if l.ending != .none then { s with lineEnding := (l.ending, true) } else s
  | none => s

/-- `election.tallyUp`: the value with the most votes; ties go to the value voted for first. -/
def tally {α} [DecidableEq α] (votes : List α) (dflt : α) : α :=
  let order := votes.eraseDups
  (order.foldl (fun (best : α × Nat) v =>
    let c := votes.count v
    if c > best.2 then (v, c) else best) (dflt, 0)).1

def ascertain {α} [DecidableEq α] (votes : List (α × Bool)) (base : α × Bool) : α × Bool :=
  if base.2 then base else (tally ((votes.filter (·.2)).map (·.1)) base.1, true)

/-- `elect(base, records, blocks)` -/
def elect (base : Style) (rs : List Record) (bs : List (List Line)) : Style :=
  let ss := (rs.zip bs).map (fun (r, b) => determine r b)
  { lineEnding := ascertain (ss.map (·.lineEnding)) base.lineEnding,
    indentation := ascertain (ss.map (·.indentation)) base.indentation,
    dateDashes := ascertain (ss.map (·.dateDashes)) base.dateDashes,
    time24 := ascertain (ss.map (·.time24)) base.time24,
    spaced := ascertain (ss.map (·.spaced)) base.spaced,
    extraQ := ascertain (ss.map (·.extraQ)) base.extraQ }

/-- `ReformatDirective` -/
inductive Reformat (α : Type) where
  | none | explicit (v : α) | auto
  deriving Repr

def Reformat.pick {α} (r : Reformat α) (auto : α) : Option α :=
  match r with | .none => Option.none | .explicit v => some v | .auto => some auto

/-! ## Reconciler -/

structure Reconciler where
  record : Record
  style : Style
  lastLine : Nat
  lines : List Line
  recIdx : Nat
  deriving Repr

/-- text of an inserted line and its indentation level -/
abbrev Insertable := Bytes × Nat

def mkLine (st : Style) (t : Insertable) : Line :=
  Line.ofRaw ((List.replicate t.2 st.indentation.1).flatten ++ t.1 ++ st.lineEnding.1.bytes)

def setEndingIfNone (st : Style) (l : Line) : Line :=
  if l.ending == .none then { l with ending := st.lineEnding.1 } else l

/-- `Reconciler.insert(lineIndex, texts)` on the list of lines -/
def insertLines (st : Style) (lines : List Line) (idx : Nat) (texts : List Insertable) : List Line :=
  let before := lines.take idx
  let before := match before.getLast? with
    | some l => before.dropLast ++ [setEndingIfNone st l]
    | none => before
  before ++ texts.map (mkLine st) ++ lines.drop idx

def Reconciler.insert (r : Reconciler) (idx : Nat) (texts : List Insertable) : Reconciler :=
  { r with lines := insertLines r.style r.lines idx texts }

/-- `toMultilineEntryTexts(entryValue, summary)` -/
def toMultilineEntryTexts (value : Bytes) (summary : List Bytes) : List Insertable :=
  match summary with
  | [] => [(value, 1)]
  | s0 :: rest =>
    let first := value ++ (if !value.isEmpty && !s0.isEmpty then [SP] else []) ++ s0
    (first, 1) :: rest.map (fun s => (s, 2))

/-- `countLines(entries)` -/
def countLines (es : List Entry) : Nat := (es.map (·.summary.length)).sum

/-- index of the last entry satisfying `p`, as `findLastEntry` -/
def findLastIdx {α} (p : α → Bool) (xs : List α) : Option Nat :=
  (xs.zipIdx.filter (fun (x, _) => p x)).getLast?.map (·.2)

def findOpenRangeIndex (r : Record) : Option Nat := findLastIdx (fun e => isOpen e.val) r.entries

/-- index just past the last significant line of a block, globally -/
def indexOfLastSignificantLine (first : Nat) (b : List Line) : Nat :=
  let (sig, head, _) := significant b
  first + head + sig.length

def bytesOfChars (cs : List Char) : Bytes := encode cs

/-- `NewReconcilerAtRecord(date)`: the first record with that date. -/
def reconcilerAtRecord (date : Date) (rs : List Record) (bos : List BlockOut) : Option Reconciler :=
  match (rs.zip bos).zipIdx.find? (fun ((r, _), _) => r.date.sameDay date) with
  | none => none
  | some ((r, bo), i) =>
    let bs := bos.map (·.lines)
    some { record := r, style := elect (determine r bo.lines) rs bs,
           lastLine := indexOfLastSignificantLine bo.first bo.lines, recIdx := i, lines := bs.flatten }

structure AdditionalData where
  should : Option Int := none
  summary : Option (List Bytes) := none
  deriving Repr

/-- position of a new record: `none` = before the first record; `some i` = after record `i` -/
def newRecordPosition (date : Date) : Nat → List Record → Option Nat
  | _, [] => none
  | i, r :: rest =>
    if i == 0 && !date.afterOrEqual r.date then none
    else match rest with
      | [] => some i
      | nxt :: _ => if date.afterOrEqual r.date && !date.afterOrEqual nxt.date then some i
                    else newRecordPosition date (i + 1) rest

/-- `NewReconcilerForNewRecord(date, format, additionalData)` -/
def reconcilerForNewRecord (date : Date) (fmt : Reformat Bool) (ad : AdditionalData)
    (rs : List Record) (bos : List BlockOut) : Reconciler :=
  let bs := bos.map (·.lines)
  let style := elect {} rs bs
  let record : Record := { date := date, should := ad.should, summary := (ad.summary.getD []).map decodeGo }
  let dateValue : List Char := match fmt.pick style.dateDashes.1 with
    | some dashes => ({ date with dashes := dashes }).print
    | none => date.print
  let headline : Bytes := bytesOfChars dateValue ++
    (match ad.should with
     | some s => bytesOfChars ([' ', '('] ++ (Dur.print ⟨s, false, 0⟩) ++ ['!', ')'])
     | none => [])
  let recordText : List Insertable := (headline, 0) :: (ad.summary.getD []).map (fun s => (s, 0))
  let blank : Insertable := ([], 0)
  let base : Reconciler := { record := record, style := style, lastLine := 0, lines := bs.flatten, recIdx := 0 }
  if rs.isEmpty then
    { (base.insert 0 recordText) with lastLine := 1, recIdx := 0 }
  else match newRecordPosition date 0 rs with
    | none => { (base.insert 0 (recordText ++ [blank])) with lastLine := 1, recIdx := 0 }
    | some i =>
      let ptr := match bos[i]? with
        | some bo => indexOfLastSignificantLine bo.first bo.lines
        | none => 0
      { (base.insert ptr (blank :: recordText)) with lastLine := ptr + 2, recIdx := i + 1 }

/-- `AppendEntry(newEntry)`; `none` = error (fixed D16: text must not start with a blank) -/
def Reconciler.appendEntry (r : Reconciler) (entry : List Bytes) : Option Reconciler :=
  match entry with
  | (b :: _) :: _ => if b == SP || b == TAB then none else some (r.insert r.lastLine (toMultilineEntryTexts [] entry))
  | _ => some (r.insert r.lastLine (toMultilineEntryTexts [] entry))

/-- `StartOpenRange(time, format, summary)` -/
def Reconciler.startOpenRange (r : Reconciler) (t : Time) (fmt : Reformat Bool) (summary : List Bytes) : Option Reconciler :=
  if (findOpenRangeIndex r.record).isSome then none else
  let t := match fmt.pick r.style.time24.1 with
    | some is24 => { t with is24 := is24 }
    | none => t
  let value := (EntryVal.openRange t r.style.spaced.1 r.style.extraQ.1).print
  some (r.insert r.lastLine (toMultilineEntryTexts (bytesOfChars value) summary))

/-- replace the first run of `?` (pattern `^(.*?)\?+(.*)$`) -/
def replaceQuestionMarks (text : Bytes) (repl : Bytes) : Bytes :=
  let pre := text.takeWhile (· != 63)
  let rest := text.drop pre.length
  if rest.isEmpty then text else pre ++ repl ++ rest.dropWhile (· == 63)

def modifyLine (lines : List Line) (i : Nat) (f : Bytes → Bytes) : List Line :=
  lines.zipIdx.map (fun (l, j) => if j == i then { l with text := f l.text } else l)

/-- `hasDanglingSeparator`: the entry has no summary text yet but its line already ends with the
blank that separates value and summary (`8:00 - ? `) -/
def hasDanglingSeparator (r : Reconciler) (entryIdx lineIdx : Nat) : Bool :=
  match r.record.entries[entryIdx]?, r.lines[lineIdx]? with
  | some en, some l => en.summary == [[]] && (match l.text.getLast? with | some b => isBlankByte b | none => false)
  | _, _ => false

/-- `CloseOpenRange(endTime, format, additionalSummary)` -/
def Reconciler.closeOpenRange (r : Reconciler) (e : Time) (fmt : Reformat Bool) (add : List Bytes) : Option Reconciler :=
  match findOpenRangeIndex r.record with
  | none => none
  | some oi =>
    match endOpenRange e r.record.entries with
    | none => none
    | some es =>
      let record := { r.record with entries := es }
      let valueLine := r.lastLine - countLines (r.record.entries.drop oi)
      let endValue := match fmt.pick r.style.time24.1 with
        | some is24 => ({ e with is24 := is24 }).print
        | none => e.print
      let lines := modifyLine r.lines valueLine (fun t => replaceQuestionMarks t (bytesOfChars endValue))
      let r := { r with record := record, lines := lines }
      -- concatenateSummary
      let entryLines := match r.record.entries[oi]? with | some en => en.summary.length | none => 1
      let lastSummaryLine := valueLine + entryLines - 1
      match add with
      | [] => some r
      | a0 :: rest =>
        let sep : Bytes := if a0.isEmpty || hasDanglingSeparator r oi lastSummaryLine then [] else [SP]
        let lines := modifyLine r.lines lastSummaryLine (fun t => t ++ (sep ++ a0))
        let r := { r with lines := lines }
        if rest.isEmpty then some r else some (r.insert (lastSummaryLine + 1) (rest.map (fun s => (s, 2))))

/-- `AppendPause(summary, appendTags)` -/
def Reconciler.appendPause (u : UTab) (r : Reconciler) (summary : List Bytes) (appendTags : Bool) : Option Reconciler :=
  match findOpenRangeIndex r.record with
  | none => none
  | some oi =>
    let summary := if summary.isEmpty then [[]] else summary
    let s0 := summary.headD []
    let first : Bytes := bytesOfChars ['-', '0', 'm'] ++ (if s0.isEmpty then [] else [SP]) ++ s0
    let summary := first :: summary.drop 1
    let summary :=
      if appendTags then
        let tags := match r.record.entries[oi]? with
          | some en => (summaryTags u en.summary).map (fun (t : Tag) => bytesOfChars (t.print u))
          | none => []
        let joined : Bytes := (tags.intersperse [SP]).flatten
        match summary.getLast? with
        | some l => summary.dropLast ++ [l ++ (if l.isEmpty then [] else [SP]) ++ joined]
        | none => [joined]
      else summary
    r.appendEntry summary

/-- replace the first blank-delimited token after leading blanks (pattern `^([ \t]*)[^ \t]+`) -/
def replaceFirstToken (text : Bytes) (repl : Bytes) : Bytes :=
  let lead := text.takeWhile isBlankByte
  let rest := text.drop lead.length
  if rest.isEmpty then text else lead ++ repl ++ rest.dropWhile (fun b => !isBlankByte b)

/-- `ExtendPause(increment)`; `.err` = logical error, `.panic` = integer overflow -/
def Reconciler.extendPause (r : Reconciler) (increment : Int) : Res Reconciler :=
  if (findOpenRangeIndex r.record).isNone then .err else
  match findLastIdx (fun (e : Entry) => match e.val with | .dur d => d.mins ≤ 0 | _ => false) r.record.entries with
  | none => .err
  | some pi =>
    let cur := match r.record.entries[pi]? with | some en => en.minutes | none => 0
    match safeAdd cur increment with
    | .ok ext =>
      let pauseLine := r.lastLine - countLines (r.record.entries.drop pi)
      if ext != 0 then
        .ok { r with lines := modifyLine r.lines pauseLine (fun t => replaceFirstToken t (bytesOfChars (Dur.print ⟨ext, false, 0⟩))) }
      else .ok r
    | _ => .panic

/-- `MakeResult()`: the edited text, if it still parses; also the re-parsed target record.
`.panic`: the safeguard's own parser run panics (a 20-digit number in the inserted text, D1). -/
def Reconciler.makeResult (r : Reconciler) : Res (Bytes × Record) :=
  let text := joinLines r.lines
  match parseDoc text with
  | .records rs _ => (match rs[r.recIdx]? with | some rec => .ok (text, rec) | none => .panic)
  | .errors _ => .err
  | .panic => .panic

end KlogV
