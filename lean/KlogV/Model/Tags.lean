/-
Tags: the scanner for `HashTagPattern`, tag construction, tag sets, totals by tag.
Mirrors klog/tag.go, klog/summary.go (Tags), klog/service/tags.go.
The Unicode predicates are parameters (`UTab`); the driver instantiates them with tables dumped
from Go's `unicode` package.
-/
import KlogV.Model.Eval
namespace KlogV

structure UTab where
  isLetter : Char → Bool
  lower : Char → Char

/-- `[\p{L}\d_-]` -/
def UTab.isNameChar (u : UTab) (c : Char) : Bool := u.isLetter c || isDigit c || c == '_' || c == '-'

structure Tag where
  name : List Char
  value : List Char
  deriving DecidableEq, Repr, Inhabited

/-- After `=`: the value alternatives of the pattern, leftmost-first:
`"[^"]*"`, `'[^']*'`, `[\p{L}\d_-]*`.  Returns (value without quotes, characters consumed). -/
def scanValue (u : UTab) (s : List Char) : List Char × Nat :=
  let quoted (q : Char) (r : List Char) : Option (List Char × Nat) :=
    let body := r.takeWhile (· != q)
    if body.length < r.length then some (body, body.length + 2) else none
  match s with
  | '"' :: r => (match quoted '"' r with | some x => x | none => ([], 0))
  | '\'' :: r => (match quoted '\'' r with | some x => x | none => ([], 0))
  | _ => let v := s.takeWhile u.isNameChar; (v, v.length)

/-- Try to match the tag pattern at the front of `s` (which starts with `#`).
Returns the tag and the length of the whole match. -/
def matchTag (u : UTab) (s : List Char) : Option (Tag × Nat) :=
  match s with
  | '#' :: r =>
    let name := r.takeWhile u.isNameChar
    if name.isEmpty then none else
    match r.drop name.length with
    | '=' :: r2 =>
      let (v, n) := scanValue u r2
      some (⟨name.map u.lower, v⟩, 1 + name.length + 1 + n)
    | _ => some (⟨name.map u.lower, []⟩, 1 + name.length)
  | _ => none

/-- `HashTagPattern.FindAllStringSubmatch(line, -1)` turned into tags (fuelled by the length). -/
def scanTagsAux (u : UTab) : Nat → List Char → List Tag
  | 0, _ => []
  | _, [] => []
  | fuel + 1, c :: r =>
    match matchTag u (c :: r) with
    | some (t, n) => t :: scanTagsAux u fuel ((c :: r).drop n)
    | none => scanTagsAux u fuel r

def scanTags (u : UTab) (line : List Char) : List Tag := scanTagsAux u (line.length + 1) line

/-- `Summary.Tags().ToStrings()` order: all tags of all lines, in order, with repetitions. -/
def summaryTags (u : UTab) (lines : List (List Char)) : List Tag := lines.flatMap (scanTags u)

/-- `TagSet.lookup` as a duplicate-free list: every tag and its bare name. -/
def lookupSet (ts : List Tag) : List Tag :=
  (ts.flatMap (fun t => [t, ⟨t.name, []⟩])).eraseDups

/-- `TagSet.Contains` -/
def tagSetContains (ts : List Tag) (t : Tag) : Bool := (lookupSet ts).contains t

/-- `unquotedValuePattern` `^[\p{L}\d_-]+$` -/
def isUnquotedValue (u : UTab) (v : List Char) : Bool := !v.isEmpty && v.all u.isNameChar

/-- `Tag.ToString()` -/
def Tag.print (u : UTab) (t : Tag) : List Char :=
  '#' :: t.name ++
    (if t.value.isEmpty then [] else
      let q : List Char := if isUnquotedValue u t.value then [] else if t.value.contains '"' then ['\''] else ['"']
      '=' :: q ++ t.value ++ q)

/-- The tags an entry carries: its record's tags and its own (merged lookup). -/
def entryTagSet (u : UTab) (r : Record) (e : Entry) : List Tag :=
  lookupSet (summaryTags u r.summary ++ summaryTags u e.summary)

structure TagStat where
  tag : Tag
  total : Int
  count : Nat
  deriving Repr, DecidableEq

def tagKey (t : Tag) : List Char := t.name ++ ['='] ++ t.value

def addStat (stats : List TagStat) (t : Tag) (d : Int) : List TagStat :=
  if stats.any (·.tag == t) then stats.map (fun s => if s.tag == t then { s with total := s.total + d, count := s.count + 1 } else s)
  else stats ++ [⟨t, d, 1⟩]

/-- `AggregateTotalsByTags` before sorting. -/
def aggregateTags (u : UTab) (rs : List Record) : List TagStat :=
  rs.foldl (fun acc r => r.entries.foldl (fun acc e => (entryTagSet u r e).foldl (fun acc t => addStat acc t e.minutes) acc) acc) []

def charsLt (a b : List Char) : Bool := a.map Char.toNat < b.map Char.toNat

end KlogV
