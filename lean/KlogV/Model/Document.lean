/-
Whole-text parsing: `SerialParser.Parse` = blocks + `parse(block)` per block + global line
numbers.  Mirrors klog/parser/engine/serial.go and the `txt.Error` accessors.
-/
import KlogV.Model.Utf8
import KlogV.Model.Parser
namespace KlogV

/-- An error with its global (1-based) line number, as `txt.Error.LineNumber()` reports it,
and the text of the line it points to (`LineText()`), `none` if out of range (Go panics). -/
structure GErr where
  lineNumber : Nat
  pos : Int
  len : Int
  code : ErrCode
  lineText : Option Bytes
  deriving Repr, DecidableEq

/-- `parse` applied to one block (all its lines, blank ones included). -/
def parseBlock (b : List Line) : ParseOut :=
  let (sig, head, _) := significant b
  parseRecord head (sig.map (fun l => decodeGo l.text))

structure BlockOut where
  lines : List Line
  first : Nat           -- global index of the first line
  out : ParseOut
  deriving Repr

def blockOuts (bs : List (List Line)) : List BlockOut :=
  (bs.zip (firstLineIndices 0 bs)).map (fun (b, i) => ⟨b, i, parseBlock b⟩)

inductive DocOut where
  | records (rs : List Record) (blocks : List BlockOut)
  | errors (es : List GErr)
  | panic
  deriving Repr

def gerrsOf (bo : BlockOut) : List GErr :=
  match bo.out with
  | .errors es => es.map (fun e => ⟨bo.first + e.line + 1, e.pos, e.len, e.code, (bo.lines[e.line]?).map (·.text)⟩)
  | _ => []

/-- Assemble the result of parsing all blocks (records in order, or all errors in order). -/
def assemble (bos : List BlockOut) : DocOut :=
  if bos.any (fun bo => bo.out == .panic) then .panic else
  let errs := (bos.map gerrsOf).flatten
  if bos.any (fun bo => match bo.out with | .errors _ => true | _ => false) then .errors errs
  else .records (bos.filterMap (fun bo => match bo.out with | .record r => some r | _ => none)) bos

/-- `parser.NewSerialParser().Parse(text)` -/
def parseDoc (t : Bytes) : DocOut := assemble (blockOuts (blocksOf t))

end KlogV
