/-
`klog json`: the JSON view of records and of parser errors.
Mirrors klog/parser/json/serialiser.go and view.go.
-/
import KlogV.Model.Json
import KlogV.Model.Tags
import KlogV.Model.Document
import KlogV.Gen.ErrorTexts
namespace KlogV

def joinNL (ls : List (List Char)) : List Char := (ls.intersperse ['\n']).flatten

def sortCharLists (xs : List (List Char)) : List (List Char) :=
  xs.foldl (fun acc x =>
    let lo := acc.takeWhile (fun y => !charsLt x y)
    lo ++ [x] ++ acc.drop lo.length) []

/-- `toTagViews`: printed tags in original order (with repetitions), then sorted -/
def tagViews (u : UTab) (lines : List (List Char)) : JVal :=
  .arr ((sortCharLists ((summaryTags u lines).map (fun (t : Tag) => t.print u))).map .str)

def plainDur (m : Int) : Dur := ⟨m, false, 0⟩

def entryView (u : UTab) (e : Entry) : JVal :=
  let base (ty : String) : List (List Char × JVal) :=
    [("type".toList, .str ty.toList), ("summary".toList, .str (joinNL e.summary)), ("tags".toList, tagViews u e.summary),
     ("total".toList, .str (plainDur e.minutes).print), ("total_mins".toList, .num e.minutes)]
  match e.val with
  | .dur _ => .obj (base "duration")
  | .openRange s _ _ => .obj (base "open_range" ++ [("start".toList, .str s.print), ("start_mins".toList, .num s.offset)])
  | .range s t _ => .obj (base "range" ++ [("start".toList, .str s.print), ("start_mins".toList, .num s.offset),
      ("end".toList, .str t.print), ("end_mins".toList, .num t.offset)])

def recordView (u : UTab) (r : Record) : JVal :=
  let total := r.total
  let should := r.shouldMins
  let diff := total - should
  .obj [("date".toList, .str r.date.print), ("summary".toList, .str (joinNL r.summary)),
        ("total".toList, .str (plainDur total).print), ("total_mins".toList, .num total),
        ("should_total".toList, .str ((plainDur should).print ++ (if r.should.isSome then ['!'] else []))), ("should_total_mins".toList, .num should),
        ("diff".toList, .str (plainDur diff).printSigned), ("diff_mins".toList, .num diff),
        ("tags".toList, tagViews u r.summary), ("entries".toList, .arr (r.entries.map (entryView u)))]

def errorView (file : List Char) (e : GErr) : JVal :=
  .obj [("line".toList, .num e.lineNumber), ("column".toList, .num (e.pos + 1)), ("length".toList, .num e.len),
        ("title".toList, .str (Gen.errorTitle e.code.name).toList), ("details".toList, .str (Gen.errorDetails e.code.name).toList),
        ("file".toList, .str file)]

/-- the envelope: exactly one of `records` and `errors` is non-null -/
def envelope (u : UTab) (file : List Char) : DocOut → Option JVal
  | .records rs _ => some (.obj [("records".toList, .arr (rs.map (recordView u))), ("errors".toList, .null)])
  | .errors es => some (.obj [("records".toList, .null), ("errors".toList, .arr (es.map (errorView file)))])
  | .panic => none

/-- `ToJson(records, errors, pretty)` -/
def toJson (u : UTab) (file : List Char) (pretty : Bool) (d : DocOut) : Option (List Char) :=
  (envelope u file d).map (fun v => if pretty then v.pretty 0 else v.compact)

end KlogV
