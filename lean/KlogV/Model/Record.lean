/-
Records, entries, parser errors.  Mirrors klog/record.go, klog/entry.go, klog/summary.go
(the validity rules of summaries) and klog/parser/error.go.
-/
import KlogV.Model.Values
namespace KlogV

structure Entry where
  val : EntryVal
  /-- `EntrySummary`: at least one line (the first may be empty), as produced by the parser. -/
  summary : List (List Char)
  deriving DecidableEq, Repr, Inhabited

def isOpen : EntryVal → Bool
  | .openRange _ _ _ => true
  | _ => false

structure Record where
  date : Date
  /-- should-total in minutes, if one was written -/
  should : Option Int := none
  summary : List (List Char) := []
  entries : List Entry := []
  deriving DecidableEq, Repr, Inhabited

def Record.shouldMins (r : Record) : Int := r.should.getD 0

inductive ErrCode where
  | invalidDate | illegalIndentation | malformedShouldTotal | unrecognisedProperty
  | malformedPropertiesSyntax | unrecognisedTextInHeadline | malformedSummary
  | malformedEntry | duplicateOpenRange | illegalRange
  deriving DecidableEq, Repr, Inhabited

def ErrCode.name : ErrCode → String
  | .invalidDate => "ErrorInvalidDate"
  | .illegalIndentation => "ErrorIllegalIndentation"
  | .malformedShouldTotal => "ErrorMalformedShouldTotal"
  | .unrecognisedProperty => "ErrorUnrecognisedProperty"
  | .malformedPropertiesSyntax => "ErrorMalformedPropertiesSyntax"
  | .unrecognisedTextInHeadline => "ErrorUnrecognisedTextInHeadline"
  | .malformedSummary => "ErrorMalformedSummary"
  | .malformedEntry => "ErrorMalformedEntry"
  | .duplicateOpenRange => "ErrorDuplicateOpenRange"
  | .illegalRange => "ErrorIllegalRange"

/-- A parser error: `line` is relative to the block (index into all its lines, leading blank
lines included), `pos`/`len` are counted in characters of that line. -/
structure Err where
  line : Nat
  pos : Int
  len : Int
  code : ErrCode
  deriving DecidableEq, Repr, Inhabited

/-- Code points of Unicode category Zs (space separators); `\p{Zs}` in klog/summary.go.
Tied to Go's `unicode.Zs` by the regenerated table `KlogV.Gen.zsTable` (see Props/Tables). -/
def zsList : List Nat :=
  [0x20, 0xA0, 0x1680, 0x2000, 0x2001, 0x2002, 0x2003, 0x2004, 0x2005, 0x2006, 0x2007, 0x2008,
   0x2009, 0x200A, 0x202F, 0x205F, 0x3000]

def isZs (c : Char) : Bool := zsList.contains c.toNat

def isSpTab (c : Char) : Bool := c == ' ' || c == '\t'

/-- blank in the sense of the summary patterns `[\p{Zs}\t]` -/
def isZsTab (c : Char) : Bool := isZs c || c == '\t'

/-- `NewRecordSummary`: a line is acceptable iff non-empty and not starting with a blank. -/
def okRecordSummaryLine (l : List Char) : Bool :=
  match l with
  | [] => false
  | c :: _ => !isZsTab c

/-- `NewEntrySummary`, lines after the first: non-empty and not entirely blank. -/
def okEntrySummaryCont (l : List Char) : Bool := !l.isEmpty && !l.all isZsTab

end KlogV
