/-
Evaluation: total, should-total sum, diff, closing open ranges at an instant.
Mirrors klog/service/evaluate.go, klog/service/record.go (CloseOpenRanges), klog/entry.go.
-/
import KlogV.Model.Calendar
import KlogV.Model.Record
namespace KlogV

def Entry.minutes (e : Entry) : Int := e.val.minutes

/-- mathematical total of a record (no overflow) -/
def Record.total (r : Record) : Int := (r.entries.map Entry.minutes).sum

def totalMins (rs : List Record) : Int := (rs.map Record.total).sum

def shouldSum (rs : List Record) : Int := (rs.map Record.shouldMins).sum

/-- `service.Total`: left fold with overflow-checked addition (Go panics on overflow). -/
def sumRes (xs : List Int) : Res Int := xs.foldl (fun acc x => acc.bind (fun a => safeAdd a x)) (.ok 0)

def totalRes (rs : List Record) : Res Int := sumRes (rs.flatMap (fun r => r.entries.map Entry.minutes))

def shouldRes (rs : List Record) : Res Int := sumRes (rs.map Record.shouldMins)

/-- `service.Diff` = actual.Minus(should) -/
def diffRes (should actual : Int) : Res Int := safeAdd actual (-should)

/-- An instant as klog sees it (`NewDateFromGo`, `NewTimeFromGo`): date, hour, minute. -/
structure Instant where
  date : Date
  h : Nat
  min : Nat
  deriving Repr, DecidableEq

def Instant.time (i : Instant) : Time := ⟨i.h, i.min, 0, true⟩

def Record.hasOpen (r : Record) : Bool := r.entries.any (fun e => isOpen e.val)

/-- `Record.EndOpenRange(end)`: replace the first open range by a range ending at `end`. -/
def endOpenRange (e : Time) : List Entry → Option (List Entry)
  | [] => none
  | x :: xs => match x.val with
    | .openRange s _ _ => if e.afterOrEqual s then some (⟨.range s e true, x.summary⟩ :: xs) else none
    | _ => (endOpenRange e xs).map (x :: ·)

/-- `service.CloseOpenRanges(now, rs)`: `.err` = an uncloseable range; `.panic` only for
now = 0000-01-01 (no day before). Returns the records and whether anything was closed. -/
def closeOpenRanges (now : Instant) (rs : List Record) : Res (List Record × Bool) :=
  match now.date.plusDays (-1) with
  | none => .panic
  | some dayBefore =>
    let step (acc : Res (List Record × Bool)) (r : Record) : Res (List Record × Bool) :=
      acc.bind fun (done, closed) =>
        if !r.hasOpen then .ok (done ++ [r], closed) else
        let endT : Option Time :=
          if r.date.sameDay now.date then some now.time
          else if r.date.sameDay dayBefore then now.time.plus 1440
          else none
        match endT with
        | none => .err
        | some e => match endOpenRange e r.entries with
          | none => .err
          | some es => .ok (done ++ [{ r with entries := es }], true)
    rs.foldl step (.ok ([], false))

end KlogV
