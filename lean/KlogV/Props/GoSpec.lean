/-
END TO END: THE GO SOURCE ITSELF SATISFIES THE SPECIFICATION.
The source tie (Props/GoSrc.lean, Props/GoCal.lean: the translated Go functions compute the model's functions) composed
with the property theorems about the model (Props/C15.lean, Props/C16.lean): statements of C15, C16 and C02 about the
functions `klogv extract` produced from klog/time.go, range.go, date.go and service/period/*.go on this run — the model no
longer appears in them.  `goTimeOffset`, `GoTimeWF`, `GoDateValid`, `goDayNumber` (KlogV/GoSem/SpecDefs.lean) read a translated value.
Property theorems only (helper lemmas: KlogV/Lemmas/GoSpec.lean).
-/
import KlogV.Lemmas.GoSpec
namespace KlogV.GoTie
open KlogV.Go

/-! ## C16: adding a duration to a time; ranges -/

/-- C16: "Adding a duration to a time gives the time that many minutes later when that lies between the start of the
previous and the end of the next day and an error otherwise" — about `(*time).Plus` of the Go source; beyond the 64-bit
range of the checked addition the refusal is a panic. -/
theorem go_time_plus (t : GoSrc.time) (d : GoSrc.duration) (ht : GoTimeWF t) (hd : inRange d.minutes = true) :
    ((-1440 ≤ goTimeOffset t + d.minutes ∧ goTimeOffset t + d.minutes < 2880) →
        ∃ r, t.Plus d = .ok r ∧ GoTimeWF r ∧ goTimeOffset r = goTimeOffset t + d.minutes ∧ r.format = t.format) ∧
    (¬ (-1440 ≤ goTimeOffset t + d.minutes ∧ goTimeOffset t + d.minutes < 2880) →
        inRange (goTimeOffset t + d.minutes) = true → (t.Plus d).res = .err) ∧
    (inRange (goTimeOffset t + d.minutes) = false → (t.Plus d).res = .panic) :=
  GoL.go_time_plus t d ht hd

/-- (As first written the statement promised an error for EVERY sum outside the window; the proof attempt returned the
counterexample `0:01` plus 2⁶³−1 minutes: the checked addition panics before the window is tested — findings D1/D12 seen
from another side.) -/
example : GoTimeWF ⟨0, 1, 0, ⟨true⟩⟩ ∧ inRange (9223372036854775807 : Int) = true ∧
    ((⟨0, 1, 0, ⟨true⟩⟩ : GoSrc.time).Plus ⟨9223372036854775807, ⟨false, 0⟩⟩).res = .panic := by decide

/-- C16: "a range is valid exactly when its end is not before its start and lasts end − start minutes" — about
`NewRangeWithFormat` and `(*timeRange).Duration` of the Go source. -/
theorem go_range (s e : GoSrc.time) (f : GoSrc.RangeFormat) (hs : GoTimeWF s) (he : GoTimeWF e) :
    (goTimeOffset s ≤ goTimeOffset e →
        GoSrc.NewRangeWithFormat s e f = .ok ⟨s, e, f⟩ ∧
        (⟨s, e, f⟩ : GoSrc.timeRange).Duration = .ok ⟨goTimeOffset e - goTimeOffset s, ⟨false, 0⟩⟩) ∧
    (¬ goTimeOffset s ≤ goTimeOffset e → (GoSrc.NewRangeWithFormat s e f).res = .err) :=
  GoL.go_range s e f hs he

/-- C16: `MidnightOffset` is the offset -/
theorem go_midnightOffset (t : GoSrc.time) (ht : GoTimeWF t) : t.MidnightOffset = .ok ⟨goTimeOffset t, ⟨false, 0⟩⟩ :=
  GoL.go_midnightOffset t ht

/-! ## C15: the calendar -/

/-- C15 (`PlusDays`): the date that many days later by day number, keeping the notation; a panic exactly outside
0000-01-01 … 9999-12-31 (finding D11) — about `(*date).PlusDays` of the Go source. -/
theorem go_plusDays (x : GoCal.date) (n : Int) (hx : GoDateValid x) :
    ((0 ≤ goDayNumber x + n ∧ goDayNumber x + n ≤ 3652424) →
        ∃ r, x.PlusDays n = .ok r ∧ GoDateValid r ∧ goDayNumber r = goDayNumber x + n ∧ r.format = x.format) ∧
    (¬ (0 ≤ goDayNumber x + n ∧ goDayNumber x + n ≤ 3652424) → (x.PlusDays n).res = .panic) :=
  GoL.go_plusDays x n hx

/-- C15 (weekday): Monday = 1 … Sunday = 7 of the proleptic Gregorian calendar (0000-01-01 is a Saturday) -/
theorem go_weekday (x : GoCal.date) (hx : GoDateValid x) :
    x.Weekday = .ok ((goDayNumber x + 5) % 7 + 1) :=
  GoL.go_weekday x hx

/-- C15 (week): `Week.Period()` is Monday … Sunday around the date, or a panic when that week leaves the calendar -/
theorem go_week_period (x : GoCal.date) (hx : GoDateValid x) (p : GoCal.periodData)
    (hp : GoCal.Week.Period ⟨x⟩ = .ok p) :
    GoDateValid p.since ∧ GoDateValid p.until_ ∧ p.since.Weekday = .ok 1 ∧ p.until_.Weekday = .ok 7 ∧
      goDayNumber p.until_ = goDayNumber p.since + 6 ∧ goDayNumber p.since ≤ goDayNumber x ∧ goDayNumber x ≤ goDayNumber p.until_ :=
  GoL.go_week_period x hx p hp

/-- C15 (month): `Month.Period()` runs from the first to the last day of the date's month -/
theorem go_month_period (x : GoCal.date) (hx : GoDateValid x) :
    GoCal.Month.Period ⟨x⟩ =
      .ok ⟨⟨x.year, x.month, 1, ⟨true⟩⟩, ⟨x.year, x.month, daysInInt x.year x.month, ⟨true⟩⟩⟩ :=
  GoL.go_month_period x hx

/-- C15 (quarter): the quarter is ⌈month / 3⌉ and `Quarter.Period()` its three months -/
theorem go_quarter_period (x : GoCal.date) (hx : GoDateValid x) :
    x.Quarter = .ok ((x.month + 2) / 3) ∧
    GoCal.Quarter.Period ⟨x⟩ =
      .ok ⟨⟨x.year, 3 * ((x.month + 2) / 3) - 2, 1, ⟨true⟩⟩,
           ⟨x.year, 3 * ((x.month + 2) / 3), daysInInt x.year (3 * ((x.month + 2) / 3)), ⟨true⟩⟩⟩ :=
  GoL.go_quarter_period x hx

/-- C15 (year) -/
theorem go_year_period (x : GoCal.date) (hx : GoDateValid x) :
    GoCal.Year.Period ⟨x⟩ = .ok ⟨⟨x.year, 1, 1, ⟨true⟩⟩, ⟨x.year, 12, 31, ⟨true⟩⟩⟩ :=
  GoL.go_year_period x hx

/-- non-vacuity -/
example : GoDateValid ⟨2024, 2, 29, ⟨true⟩⟩ := by decide
example : GoTimeWF ⟨23, 59, 1, ⟨false⟩⟩ := by decide

end KlogV.GoTie
