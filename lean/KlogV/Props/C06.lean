/-
C06 — No file content can crash klog: parsing and evaluation are total.
Property theorems only (helper lemmas: KlogV/Lemmas/ParserErrors.lean, KlogV/Lemmas/Totality.lean).
Totality of the model functions is Lean's termination check; what is proved here is that the
explicitly modelled Go panic sites are reachable only through the known findings D1/D2/D12.
-/
import KlogV.Lemmas.Totality
import KlogV.Lemmas.ReportTotal
import KlogV.Lemmas.Prettify
import KlogV.Props.C06b
namespace KlogV.C06

/-- Shape of the parser's result: records with one text block per record and no errors, or no
records and at least one error (or the modelled panic). -/
theorem parse_shape (t : Bytes) :
    (∃ rs bos, parseDoc t = .records rs bos ∧ rs.length = bos.length ∧ bos.map (·.lines) = blocksOf t) ∨
    (∃ es, parseDoc t = .errors es ∧ es ≠ []) ∨ parseDoc t = .panic :=
  KlogV.parseDoc_shape t

/-- A line has a run of at least 18 decimal digits. -/
abbrev HasLongDigitRun (l : List Char) : Prop := KlogV.HasLongDigitRun l

/-- The duration parser panics only on numbers with at least 18 digits (finding D1/D2). -/
theorem dur_panic_only_huge (s : List Char) (h : Dur.parse s = .panic) : HasLongDigitRun s :=
  KlogV.dur_panic_only_huge s h

/-- Parsing a block panics only if one of its lines contains such a number; i.e. apart from the
known findings D1/D2 there is no panic path in the parser. -/
theorem parse_no_panic (offset : Nat) (lines : List (List Char))
    (h : ∀ l ∈ lines, ¬ HasLongDigitRun l) : parseRecord offset lines ≠ .panic :=
  KlogV.parseRecord_no_panic offset lines h

/-- A tag value never contains both kinds of quotes, so `NewTagOrPanic` cannot panic.
The Unicode table is a parameter of the model; the statement needs that at least one of the two
quote characters is not classified as a letter (true of Go's `unicode.IsLetter` for both). -/
theorem tag_never_both_quotes (u : UTab) (s : List Char) (t : Tag) (n : Nat)
    (hq : u.isLetter '"' = false ∨ u.isLetter '\'' = false) (h : matchTag u s = some (t, n)) :
    ¬ (t.value.contains '"' = true ∧ t.value.contains '\'' = true) :=
  KlogV.matchTag_not_both_quotes u s t n hq h

/-- The hypothesis `hq` is needed: with a table that calls both quotes letters, the unquoted
value alternative `[\p{L}\d_-]*` swallows them. -/
example : ∃ (u : UTab) (s : List Char) (t : Tag) (n : Nat), matchTag u s = some (t, n) ∧
    t.value.contains '"' = true ∧ t.value.contains '\'' = true :=
  ⟨⟨fun c => c == '"' || c == '\'' || c == 'a' || c == 'x', id⟩, "#a=x\"'".toList,
    ⟨['a'], ['x', '"', '\'']⟩, 6, by decide⟩

/-- Evaluation overflows only beyond the int64 range (finding D12): within range it is exact. -/
theorem total_no_panic (xs : List Int) (h : ∀ n, inRange ((xs.take n).sum) = true) (hx : ∀ x ∈ xs, inRange x = true) :
    sumRes xs = .ok xs.sum :=
  KlogV.sumRes_ok xs h hx

/-! ### Evaluation and rendering complete on whatever the parser returned -/

/-- Every record the parser returns carries a date of the calendar 0000-01-01 … 9999-12-31 … -/
theorem parsed_dates_valid (t : Bytes) (rs : List Record) (bos : List BlockOut)
    (h : parseDoc t = .records rs bos) : ∀ r ∈ rs, r.date.valid = true :=
  KlogV.parseDoc_dates_valid t rs bos h

/-- … and for such records `klog report` never fails, for every aggregation, with and without gap
filling (the day-by-day walk from the first to the last date never leaves the calendar). -/
theorem report_never_fails (k : PeriodKind) (fill : Bool) (rs : List Record) (hv : ∀ r ∈ rs, r.date.valid = true) :
    (reportRows k fill rs).isSome = true :=
  KlogV.reportRows_isSome k fill rs hv

/-- `klog today` completes whenever the clock's date has a preceding day. -/
theorem today_never_fails (today : Date) (rs : List Record) (h : (today.plusDays (-1)).isSome = true) :
    (splitCurrentOther today rs).isSome = true :=
  KlogV.splitCurrentOther_isSome today rs h

/-- `klog json` renders whatever the parser returned — records or errors. -/
theorem json_never_fails (u : UTab) (file : List Char) (pretty : Bool) (t : Bytes) (h : parseDoc t ≠ .panic) :
    (toJson u file pretty (parseDoc t)).isSome = true :=
  KlogV.toJson_isSome u file pretty (parseDoc t) (fun x hx => hx ▸ h)

/-- The terminal rendering of the reported errors never fails (C10), under any styler. -/
theorem render_errors_never_fails (t : Bytes) (es : List GErr) (st : Styler) (origin : List Char)
    (h : parseDoc t = .errors es) : (prettyErrors st origin es).isSome = true :=
  KlogV.prettyErrors_isSome t es st origin h

/-- Witnesses of the known findings. -/
example : Dur.parse "99999999999999999999h".toList = .panic := by decide
example : sumRes [9223372036854775807, 9223372036854775807] = .panic := by decide

end KlogV.C06
