/-
C15 — Calendar periods tile the calendar exactly.
Property theorems only (helper lemmas: KlogV/Lemmas/Calendar.lean).
-/
import KlogV.Lemmas.Calendar
import KlogV.Lemmas.Patterns
import KlogV.Props.Tables
import KlogV.Props.Rx.Periods
import KlogV.Props.Rx.Model
namespace KlogV.C15

/-- The day after a valid date has the next day number. -/
theorem dayNumber_nextDay (x : Date) (h : x.valid = true) : dayNumber (nextDay x) = dayNumber x + 1 :=
  KlogV.dayNumber_nextDay x h

theorem nextDay_valid (x : Date) (h : x.valid = true) (hl : isLastDay x = false) : (nextDay x).valid = true :=
  KlogV.nextDay_valid x h hl

theorem prevDay_spec (x : Date) (h : x.valid = true) (hf : isFirstDay x = false) :
    (prevDay x).valid = true ∧ dayNumber (prevDay x) = dayNumber x - 1 :=
  KlogV.prevDay_spec x h hf

/-- `PlusDays(n)` is the date `n` days later (by day number) and exists exactly when that day
lies within 0000-01-01 … 9999-12-31 (outside, Go panics: finding D11). -/
theorem plusDays_some (x y : Date) (n : Int) (h : x.valid = true) (hy : x.plusDays n = some y) :
    y.valid = true ∧ dayNumber y = dayNumber x + n :=
  KlogV.plusDays_some x y n h hy

theorem plusDays_none_iff (x : Date) (n : Int) (h : x.valid = true) :
    x.plusDays n = none ↔ (dayNumber x + n < 0 ∨ dayNumber x + n > 3652424) :=
  KlogV.plusDays_none_iff x n h

/-- Day numbers identify dates: the calendar is a bijection onto 0 … 3652424. -/
theorem dayNumber_inj (x y : Date) (hx : x.valid = true) (hy : y.valid = true)
    (h : dayNumber x = dayNumber y) : x.sameDay y = true :=
  KlogV.dayNumber_inj x y hx hy h

theorem dayNumber_range (x : Date) (hx : x.valid = true) : 0 ≤ dayNumber x ∧ dayNumber x ≤ 3652424 :=
  KlogV.dayNumber_range x hx

/-- Weekdays cycle Monday(1) … Sunday(7) with the days; anchored at known dates. -/
theorem weekday_nextDay (x : Date) (h : x.valid = true) : (nextDay x).weekday = x.weekday % 7 + 1 :=
  KlogV.weekday_nextDay x h

theorem weekday_bounds (x : Date) : 1 ≤ x.weekday ∧ x.weekday ≤ 7 := KlogV.weekday_bounds x

example : (⟨0, 1, 1, true⟩ : Date).weekday = 6 ∧ (⟨2024, 1, 1, true⟩ : Date).weekday = 1 ∧
    (⟨1970, 1, 1, true⟩ : Date).weekday = 4 ∧ (⟨9999, 12, 31, true⟩ : Date).weekday = 5 := by decide

/-- Quarter of a date. -/
theorem quarter_spec (x : Date) (h : x.valid = true) :
    1 ≤ x.quarter ∧ x.quarter ≤ 4 ∧ 3 * (x.quarter - 1) < x.m ∧ x.m ≤ 3 * x.quarter :=
  KlogV.quarter_spec x h

/-- ISO 8601 week: the Thursday of the date's week lies in the week-year `Y`, and it is the
`w`-th Thursday of that year. -/
theorem isoWeek_spec (x : Date) (h : x.valid = true) :
    let th := dayNumber x + 4 - (x.weekday : Int)
    let Y := x.isoWeek.1
    let w := x.isoWeek.2
    daysBeforeYear Y ≤ th ∧ th < daysBeforeYear (Y + 1) ∧ 1 ≤ w ∧ w ≤ 53 ∧
      7 * ((w : Int) - 1) ≤ th - daysBeforeYear Y ∧ th - daysBeforeYear Y < 7 * w :=
  KlogV.isoWeek_spec x h

/-- The week period is Monday … Sunday and contains the date. -/
theorem weekPeriod_spec (x : Date) (h : x.valid = true) (p : Period) (hp : weekPeriod x = some p) :
    p.since.valid = true ∧ p.until_.valid = true ∧ p.since.weekday = 1 ∧ p.until_.weekday = 7 ∧
      dayNumber p.until_ = dayNumber p.since + 6 ∧ dayNumber p.since ≤ dayNumber x ∧ dayNumber x ≤ dayNumber p.until_ :=
  KlogV.weekPeriod_spec x h p hp

/-- … and it exists unless the week reaches outside the representable calendar. -/
theorem weekPeriod_none_iff (x : Date) (h : x.valid = true) :
    weekPeriod x = none ↔ (dayNumber x - ((x.weekday : Int) - 1) < 0 ∨ dayNumber x + (7 - (x.weekday : Int)) > 3652424) :=
  KlogV.weekPeriod_none_iff x h

/-- Month, quarter and year periods begin on the first and end on the last day of the period and
contain the date. -/
theorem monthPeriod_spec (x : Date) (h : x.valid = true) :
    let p := monthPeriod x
    p.since.valid = true ∧ p.until_.valid = true ∧ p.since.d = 1 ∧ p.until_.d = daysIn x.y x.m ∧
      p.since.y = x.y ∧ p.since.m = x.m ∧ p.until_.y = x.y ∧ p.until_.m = x.m ∧
      dayNumber p.since ≤ dayNumber x ∧ dayNumber x ≤ dayNumber p.until_ :=
  KlogV.monthPeriod_spec x h

theorem quarterPeriod_spec (x : Date) (h : x.valid = true) :
    let p := quarterPeriod x
    p.since.valid = true ∧ p.until_.valid = true ∧ p.since = ⟨x.y, 3 * x.quarter - 2, 1, true⟩ ∧
      p.until_ = ⟨x.y, 3 * x.quarter, daysIn x.y (3 * x.quarter), true⟩ ∧
      dayNumber p.since ≤ dayNumber x ∧ dayNumber x ≤ dayNumber p.until_ :=
  KlogV.quarterPeriod_spec x h

theorem yearPeriod_spec (x : Date) (h : x.valid = true) :
    let p := yearPeriod x
    p.since = ⟨x.y, 1, 1, true⟩ ∧ p.until_ = ⟨x.y, 12, 31, true⟩ ∧
      dayNumber p.since ≤ dayNumber x ∧ dayNumber x ≤ dayNumber p.until_ :=
  KlogV.yearPeriod_spec x h

/-- The previous period ends the day before the period begins. -/
theorem previous_adjacent (k : PeriodKind) (x y : Date) (h : x.valid = true) (p q : Period)
    (hy : previousDate k x = some y) (hp : periodOf k x = some p) (hq : periodOf k y = some q) :
    y.valid = true ∧ dayNumber q.until_ + 1 = dayNumber p.since :=
  KlogV.previous_adjacent k x y h p q hy hp hq

/-- The key that identifies the period of a date, per kind (definition: `KlogV.bucketKey` in
KlogV/Lemmas/Calendar3.lean — day ↦ (y, m, d), week ↦ (isoWeek.1, isoWeek.2, 0), month ↦ (y, m, 0),
quarter ↦ (y, quarter, 0), year ↦ (y, 0, 0)). -/
abbrev bucketKey := KlogV.bucketKey

/-- Two dates fall into the same report bucket (equal hash) exactly when they have the same
period key — including the week-year `-1` of 0000-01-01/02, which wraps around in `uint32`. -/
theorem hash_eq_iff (k : PeriodKind) (x y : Date) (hx : x.valid = true) (hy : y.valid = true) :
    hashOf k x = hashOf k y ↔ bucketKey k x = bucketKey k y :=
  KlogV.hash_eq_iff k x y hx hy

/-- … and the period key is the same exactly when the periods are the same. -/
theorem same_period_iff_key (k : PeriodKind) (x y : Date) (hx : x.valid = true) (hy : y.valid = true)
    (p q : Period) (hp : periodOf k x = some p) (hq : periodOf k y = some q) :
    (p.since.sameDay q.since = true ∧ p.until_.sameDay q.until_ = true) ↔ bucketKey k x = bucketKey k y :=
  KlogV.same_period_iff_key k x y hx hy p q hp hq

/-- Period patterns: accepted ones denote exactly that period; month 13, Q5, W00 and W53 of a
52-week year are rejected rather than rolled over. -/
theorem pattern_year (y : Nat) (hy : y ≤ 9999) :
    periodFromPattern (pad4 y) = .ok ⟨⟨y, 1, 1, true⟩, ⟨y, 12, 31, true⟩⟩ :=
  KlogV.pattern_year y hy

theorem pattern_month (y m : Nat) (hy : y ≤ 9999) (hm : 1 ≤ m ∧ m ≤ 12) :
    periodFromPattern (pad4 y ++ ['-'] ++ pad2 m) = .ok ⟨⟨y, m, 1, true⟩, ⟨y, m, daysIn y m, true⟩⟩ :=
  KlogV.pattern_month y m hy hm

theorem pattern_month_rejected (y m : Nat) (hy : y ≤ 9999) (hm : m = 0 ∨ (13 ≤ m ∧ m ≤ 99)) :
    periodFromPattern (pad4 y ++ ['-'] ++ pad2 m) = .err :=
  KlogV.pattern_month_rejected y m hy hm

theorem pattern_quarter (y q : Nat) (hy : y ≤ 9999) (hq : 1 ≤ q ∧ q ≤ 4) :
    periodFromPattern (pad4 y ++ "-Q".toList ++ [digitChar q]) =
      .ok ⟨⟨y, 3 * q - 2, 1, true⟩, ⟨y, 3 * q, daysIn y (3 * q), true⟩⟩ :=
  KlogV.pattern_quarter y q hy hq

theorem pattern_quarter_rejected (y q : Nat) (hy : y ≤ 9999) (hq : q = 0 ∨ (5 ≤ q ∧ q ≤ 9)) :
    periodFromPattern (pad4 y ++ "-Q".toList ++ [digitChar q]) = .err :=
  KlogV.pattern_quarter_rejected y q hy hq

/-- the two notations of a week number: `W07` and `W7` -/
abbrev WeekDigits (w : Nat) (ws : List Char) : Prop := KlogV.WeekDigits w ws

/-- An accepted week pattern denotes Monday … Sunday of exactly ISO week `w` of year `y`. -/
theorem pattern_week (y w : Nat) (ws : List Char) (hy : y ≤ 9999) (hw : w ≤ 99) (hws : WeekDigits w ws) (p : Period)
    (h : periodFromPattern (pad4 y ++ "-W".toList ++ ws) = .ok p) :
    p.since.valid = true ∧ p.until_.valid = true ∧ p.since.weekday = 1 ∧ dayNumber p.until_ = dayNumber p.since + 6 ∧
      p.since.isoWeek = ((y : Int), w) ∧ p.until_.isoWeek = ((y : Int), w) :=
  KlogV.pattern_week y w ws hy hw hws p h

/-- Every ISO week that exists (of the years 0001–9998; the edges are D11) is accepted … -/
theorem pattern_week_accepted (y w : Nat) (ws : List Char) (hy : 1 ≤ y ∧ y ≤ 9998) (hws : WeekDigits w ws)
    (hex : ∃ x : Date, x.valid = true ∧ x.isoWeek = ((y : Int), w)) :
    ∃ p, periodFromPattern (pad4 y ++ "-W".toList ++ ws) = .ok p :=
  KlogV.pattern_week_accepted y w ws hy hws hex

/-- … and every week that does not exist (W00, W53 of a 52-week year, W54 …) is rejected, not rolled over. -/
theorem pattern_week_rejected (y w : Nat) (ws : List Char) (hy : 1 ≤ y ∧ y ≤ 9998) (hw : w ≤ 99) (hws : WeekDigits w ws)
    (hex : ¬ ∃ x : Date, x.valid = true ∧ x.isoWeek = ((y : Int), w)) :
    periodFromPattern (pad4 y ++ "-W".toList ++ ws) = .err :=
  KlogV.pattern_week_rejected y w ws hy hw hws hex

/-- Whatever pattern is accepted denotes a whole year, month, quarter or week of a valid date. -/
theorem pattern_sound (s : List Char) (p : Period) (h : periodFromPattern s = .ok p) :
    ∃ x : Date, x.valid = true ∧ (p = yearPeriod x ∨ p = monthPeriod x ∨ p = quarterPeriod x ∨ weekPeriod x = some p) :=
  KlogV.pattern_sound s p h

example : periodFromPattern "2022-13".toList = .err ∧ periodFromPattern "2022-00".toList = .err ∧
    periodFromPattern "2022-Q5".toList = .err ∧ periodFromPattern "2022-Q0".toList = .err ∧
    periodFromPattern "2022-W00".toList = .err ∧ periodFromPattern "2022-W53".toList = .err ∧
    periodFromPattern "2020-W53".toList = .ok ⟨⟨2020, 12, 28, true⟩, ⟨2021, 1, 3, true⟩⟩ ∧
    periodFromPattern "2022-W1".toList = .ok ⟨⟨2022, 1, 3, true⟩, ⟨2022, 1, 9, true⟩⟩ := by decide

/-- D11 (known finding): weeks that reach outside the calendar make Go panic. -/
example : periodFromPattern "9999-W52".toList = .panic ∧ periodFromPattern "9999-W99".toList = .panic ∧
    weekPeriod ⟨0, 1, 1, true⟩ = none ∧ weekPeriod ⟨9999, 12, 31, true⟩ = none := by decide

end KlogV.C15
