/-
END TO END, C08: READING A TEXT WITH THE GO SOURCE'S `ParseBlock` LOSES NOTHING.
`goSerialBlocks` is the block loop of the serial parser (klog/parser/engine/serial.go, `mapParse`, hand-transcribed: call
`ParseBlock` on the rest of the text with the number of lines seen so far, stop when nothing is consumed or no block is
returned) over the TRANSLATED `ParseBlock` (Gen/GoTxt.lean).  `parseBlock_eq` + `blocksOf_drop` (Props/GoTxt.lean) composed with
the C08 theorems about the model: the blocks the loop returns are the model's, their lines reproduce the text byte for byte,
and their line numbers are consecutive from 0 — statements about the translated Go code, for every byte string below 2⁶³.
Property theorems only (helper lemmas: KlogV/Lemmas/GoSpec08.lean).
-/
import KlogV.Lemmas.GoSpec08
namespace KlogV.GoTie
open KlogV.Go

/-- the loop finds the model's blocks, numbered consecutively -/
theorem go_serial_blocks (t : Bytes) (hlen : (t.length : Int) < 9223372036854775808) :
    goSerialBlocks (t.length + 1) t 0 =
      some (((blocksOf t).zip (firstLineIndices 0 (blocksOf t))).map fun (b, i) => (⟨(i : Int), b.map Line.toGo⟩ : GoTxt.block)) :=
  GoL.go_serial_blocks t hlen

/-- C08: "concatenating the original lines (text plus line ending) of all returned blocks reproduces the input
byte-for-byte" — for every text with a significant line -/
theorem go_blocks_reproduce (t : Bytes) (hlen : (t.length : Int) < 9223372036854775808)
    (h : ∃ l ∈ splitLines t, l.isBlank = false) :
    ∃ bs, goSerialBlocks (t.length + 1) t 0 = some bs ∧
      (bs.flatMap fun b => b.lines.flatMap fun l => l.Text ++ l.LineEnding) = t :=
  GoL.go_blocks_reproduce t hlen h

/-- C08: "only a text consisting solely of blank lines yields no blocks" -/
theorem go_blank_text_no_blocks (t : Bytes) (hlen : (t.length : Int) < 9223372036854775808)
    (h : ∀ l ∈ splitLines t, l.isBlank = true) :
    goSerialBlocks (t.length + 1) t 0 = some [] :=
  GoL.go_blank_text_no_blocks t hlen h

end KlogV.GoTie
