/-
THE GO SOURCE, TRANSLATED, COMPUTES THE MODEL'S FUNCTIONS.
`KlogV/Gen/GoSrc.lean` is regenerated on every run by `klogv extract` from klog/time.go, klog/duration.go,
klog/range.go and klog/service/rounding.go (harness/extract_gosrc.go; semantics of the Go fragment:
KlogV/GoSem/Prelude.lean).  These theorems state, for EVERY argument, that the translated definitions and the
hand-written model (KlogV/Model/Values.lean, Commands.lean, ConfigFile.lean) — the one all property theorems are about —
return the same result: same value, same "error" / "panic" outcome.  A change of the arithmetic in the Go code changes the
generated definitions and these theorems are re-checked against what the code says now.
`G.res` drops the wording of error messages.  Property theorems only (helper lemmas: KlogV/Lemmas/GoSrc*.lean).
-/
import KlogV.Lemmas.GoSrcA
import KlogV.Lemmas.GoSrcB
namespace KlogV.GoTie
open KlogV.Go

/-! ## klog/time.go -/

/-- `newTime`: the 24:00 folding and the validity check -/
theorem newTime_eq (hour minute : Nat) (shift : Int) (is24 : Bool) (hs : inInt64 shift) :
    (GoSrc.newTime hour minute shift ⟨is24⟩).res = (optRes (Time.mk' hour minute shift is24)).map Time.toGo :=
  GoL.newTime_eq hour minute shift is24 hs

/-- … and negative numbers (which the model's `Nat` arguments cannot express) are rejected -/
theorem newTime_negative (hour minute shift : Int) (f : GoSrc.TimeFormat) (h : hour < 0 ∨ minute < 0) :
    (GoSrc.newTime hour minute shift f).res = .err :=
  GoL.newTime_negative hour minute shift f h

theorem NewTime_eq (hour minute : Nat) :
    (GoSrc.NewTime hour minute).res = (optRes (Time.mk' hour minute 0 true)).map Time.toGo :=
  GoL.NewTime_eq hour minute

theorem NewTimeYesterday_eq (hour minute : Nat) :
    (GoSrc.NewTimeYesterday hour minute).res = (optRes (Time.mk' hour minute (-1) true)).map Time.toGo :=
  GoL.NewTimeYesterday_eq hour minute

theorem NewTimeTomorrow_eq (hour minute : Nat) :
    (GoSrc.NewTimeTomorrow hour minute).res = (optRes (Time.mk' hour minute 1 true)).map Time.toGo :=
  GoL.NewTimeTomorrow_eq hour minute

/-- `MidnightOffset` -/
theorem midnightOffset_eq (t : Time) (h : t.wf = true) :
    t.toGo.MidnightOffset = .ok (durOfMins t.offset) :=
  GoL.midnightOffset_eq t h

theorem isAfterOrEqual_eq (a b : Time) (ha : a.wf = true) (hb : b.wf = true) :
    a.toGo.IsAfterOrEqual b.toGo = .ok (a.afterOrEqual b) :=
  GoL.isAfterOrEqual_eq a b ha hb

theorem isEqualTo_eq (a b : Time) (ha : a.wf = true) (hb : b.wf = true) :
    a.toGo.IsEqualTo b.toGo = .ok (a.offset == b.offset) :=
  GoL.isEqualTo_eq a b ha hb

theorem shift_tests (t : Time) :
    t.toGo.IsToday = .ok (t.shift == 0) ∧ t.toGo.IsYesterday = .ok (decide (t.shift < 0)) ∧
    t.toGo.IsTomorrow = .ok (decide (t.shift > 0)) :=
  GoL.shift_tests t

/-- `Time.Plus`: the same time or the same refusal, whenever the overflow-checked addition goes through … -/
theorem time_plus_eq (t : Time) (d : GoSrc.duration) (h : t.wf = true)
    (hd : inRange d.minutes = true) (hsum : inRange (t.offset + d.minutes) = true) :
    (t.toGo.Plus d).res = (optRes (t.plus d.minutes)).map Time.toGo :=
  GoL.time_plus_eq t d h hd hsum

/-- … and a panic ("Integer overflow") exactly when it does not -/
theorem time_plus_overflow (t : Time) (d : GoSrc.duration) (h : t.wf = true)
    (hd : ¬ (inRange d.minutes = true ∧ inRange (t.offset + d.minutes) = true)) :
    (t.toGo.Plus d).res = .panic :=
  GoL.time_plus_overflow t d h hd

/-- `Time.ToString` -/
theorem time_toString_eq (t : Time) (h : t.wf = true) : t.toGo.ToString = .ok t.print :=
  GoL.time_toString_eq t h

theorem time_toStringWithFormat_eq (t : Time) (b : Bool) (h : t.wf = true) :
    t.toGo.ToStringWithFormat ⟨b⟩ = .ok ({ t with is24 := b } : Time).print :=
  GoL.time_toStringWithFormat_eq t b h

/-! ## klog/duration.go -/

/-- `NewDurationWithFormat`: hours·60 + minutes with both overflow checks, a panic when either fails -/
theorem newDurationWithFormat_eq (h m : Int) (f : GoSrc.DurationFormat) :
    (GoSrc.NewDurationWithFormat h m f).res =
      ((safeMul h 60).bind fun x => safeAdd x m).map (fun tot => (⟨tot, f⟩ : GoSrc.duration)) :=
  GoL.newDurationWithFormat_eq h m f

theorem newDuration_eq (h m : Int) :
    (GoSrc.NewDuration h m).res = ((safeMul h 60).bind fun x => safeAdd x m).map durOfMins :=
  GoL.newDuration_eq h m

theorem duration_plus_eq (a b : GoSrc.duration) :
    (a.Plus b).res = (safeAdd a.minutes b.minutes).map durOfMins :=
  GoL.duration_plus_eq a b

theorem duration_minus_eq (a b : GoSrc.duration) (hb : inInt64 b.minutes) :
    (a.Minus b).res = (safeAdd a.minutes (-b.minutes)).map durOfMins :=
  GoL.duration_minus_eq a b hb

/-- `Duration.ToString` for every 64-bit value, the smallest one included -/
theorem duration_toString_eq (d : Dur) (h : inInt64 d.mins) : d.toGo.ToString = .ok d.print :=
  GoL.duration_toString_eq d h

theorem duration_toStringWithSign_eq (d : Dur) (h : inInt64 d.mins) : d.toGo.ToStringWithSign = .ok d.printSigned :=
  GoL.duration_toStringWithSign_eq d h

/-! ## klog/range.go -/

/-- `NewRangeWithFormat`: a range is accepted exactly when its end is not before its start -/
theorem newRange_eq (s e : Time) (sp : Bool) (hs : s.wf = true) (he : e.wf = true) :
    (GoSrc.NewRangeWithFormat s.toGo e.toGo ⟨sp⟩).res =
      if e.afterOrEqual s then .ok ⟨s.toGo, e.toGo, ⟨sp⟩⟩ else .err :=
  GoL.newRange_eq s e sp hs he

/-- `Range.Duration` is the model's `EntryVal.minutes` -/
theorem range_duration_eq (s e : Time) (sp : Bool) (hs : s.wf = true) (he : e.wf = true) :
    (⟨s.toGo, e.toGo, ⟨sp⟩⟩ : GoSrc.timeRange).Duration = .ok (durOfMins (EntryVal.range s e sp).minutes) :=
  GoL.range_duration_eq s e sp hs he

theorem range_toString_eq (s e : Time) (sp : Bool) (hs : s.wf = true) (he : e.wf = true) :
    (⟨s.toGo, e.toGo, ⟨sp⟩⟩ : GoSrc.timeRange).ToString = .ok (EntryVal.range s e sp).print :=
  GoL.range_toString_eq s e sp hs he

theorem openRange_toString_eq (s : Time) (sp : Bool) (extra : Nat) (hs : s.wf = true) (hx : (extra : Int) < 9223372036854775807) :
    (⟨s.toGo, ⟨sp, extra⟩⟩ : GoSrc.openRange).ToString = .ok (EntryVal.openRange s sp extra).print :=
  GoL.openRange_toString_eq s sp extra hs hx

/-! ## klog/service/rounding.go -/

theorem newRounding_eq (r : Int) :
    (GoSrc.NewRounding r).res = if 0 ≤ r ∧ validRoundings.contains r.toNat = true then .ok ⟨r⟩ else .err :=
  GoL.newRounding_eq r

/-- `NewRoundingFromString` is the model's reader of `--round` / `default_rounding` -/
theorem newRoundingFromString_eq (s : List Char) :
    (GoSrc.NewRoundingFromString s).res = (optRes (parseRounding s)).map (fun n => (⟨(n : Int)⟩ : GoSrc.rounding)) :=
  GoL.newRoundingFromString_eq s

/-- `RoundToNearest` on a wall-clock time (klog only rounds the unshifted current time), for every allowed rounding -/
theorem roundToNearest_eq (t : Time) (v : Nat) (h : t.wf = true) (h0 : t.shift = 0) (h24 : t.is24 = true)
    (hv : validRoundings.contains v = true) :
    GoSrc.RoundToNearest t.toGo ⟨v⟩ = .ok (roundToNearest t v).toGo :=
  GoL.roundToNearest_eq t v h h0 h24 hv

/-! Non-vacuity: the hypotheses are met by ordinary values, and the two sides are not trivially equal. -/
example : (⟨23, 59, 1, false⟩ : Time).wf = true ∧ inRange (1 : Int) = true ∧ inRange ((⟨23, 59, 1, false⟩ : Time).offset + 1) = true := by decide
example : ((⟨23, 59, 0, true⟩ : Time).toGo.Plus ⟨1, ⟨false, 0⟩⟩).res = .ok (⟨0, 0, 1, true⟩ : Time).toGo := by decide
example : ((⟨23, 59, 1, true⟩ : Time).toGo.Plus ⟨1, ⟨false, 0⟩⟩).res = .err := by decide
example : validRoundings.contains 15 = true ∧ (GoSrc.RoundToNearest (⟨8, 8, 0, true⟩ : Time).toGo ⟨15⟩).res = .ok (⟨8, 15, 0, true⟩ : Time).toGo := by decide

end KlogV.GoTie
