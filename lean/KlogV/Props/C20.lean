/-
C20 — The JSON output is well-formed and faithful to the data.
Property theorems only (helper lemmas: KlogV/Lemmas/JsonRoundtrip.lean).
`Spec.readJson` is an independent RFC 8259 reader (KlogV/Spec/JsonRfc.lean).
-/
import KlogV.Lemmas.JsonRoundtrip
namespace KlogV.C20

/-- Every value the encoder writes — compactly or indented, whatever characters the strings
contain (quotes, backslashes, control characters, `<>&`, U+2028, non-ASCII) — is one well-formed
JSON text, and reading it back yields exactly that value. -/
theorem compact_wellformed (v : JVal) : Spec.readJson v.compact = some (Spec.ofJVal v) :=
  KlogV.readJson_compact v

theorem pretty_wellformed (v : JVal) : Spec.readJson (v.pretty 0) = some (Spec.ofJVal v) :=
  KlogV.readJson_pretty v

/-- String escaping alone: reading an escaped string returns the original characters. -/
theorem string_roundtrip (s rest : List Char) :
    Spec.readString ((jsonString s).length + rest.length + 1) [] ((jsonString s).drop 1 ++ rest) = some (s, rest) :=
  KlogV.readString_jsonString s rest

/-- Exactly one of `records` and `errors` is non-null. -/
theorem envelope_xor (u : UTab) (file : List Char) (d : DocOut) (v : JVal) (h : envelope u file d = some v) :
    (∃ rs, v = .obj [("records".toList, .arr rs), ("errors".toList, .null)]) ∨
    (∃ es, v = .obj [("records".toList, .null), ("errors".toList, .arr es)]) :=
  KlogV.envelope_shape u file d v h

/-- `klog json` emits a well-formed document for every input on which the parser does not panic. -/
theorem output_wellformed (u : UTab) (file : List Char) (pretty : Bool) (t : Bytes) (out : List Char)
    (h : toJson u file pretty (parseDoc t) = some out) : ∃ j, Spec.readJson out = some j :=
  KlogV.toJson_wellformed u file pretty t out h

/-- lookup of a field in an object view (definition moved to KlogV/Lemmas/JsonRoundtrip.lean) -/
abbrev field (k : String) : JVal → Option JVal := KlogV.field k

/-- Faithfulness of a record object: date, summary, should-total, totals and entries are those
of the record, in order; total_mins is the sum of the entries' total_mins; diff_mins is
total_mins − should_total_mins. -/
theorem record_view_faithful (u : UTab) (r : Record) :
    field "date" (recordView u r) = some (.str r.date.print) ∧
    field "summary" (recordView u r) = some (.str (joinNL r.summary)) ∧
    field "should_total_mins" (recordView u r) = some (.num r.shouldMins) ∧
    field "total_mins" (recordView u r) = some (.num ((r.entries.map Entry.minutes).sum)) ∧
    field "diff_mins" (recordView u r) = some (.num ((r.entries.map Entry.minutes).sum - r.shouldMins)) ∧
    field "entries" (recordView u r) = some (.arr (r.entries.map (entryView u))) :=
  KlogV.recordView_fields u r

/-- Faithfulness of an entry object: type, summary, minutes; a range's total is
end_mins − start_mins. -/
theorem entry_view_faithful (u : UTab) (e : Entry) :
    field "summary" (entryView u e) = some (.str (joinNL e.summary)) ∧
    field "total_mins" (entryView u e) = some (.num e.minutes) ∧
    (match e.val with
     | .dur _ => field "type" (entryView u e) = some (.str "duration".toList)
     | .openRange s _ _ => field "type" (entryView u e) = some (.str "open_range".toList) ∧
         field "start" (entryView u e) = some (.str s.print) ∧ field "start_mins" (entryView u e) = some (.num s.offset)
     | .range s t _ => field "type" (entryView u e) = some (.str "range".toList) ∧
         field "start_mins" (entryView u e) = some (.num s.offset) ∧ field "end_mins" (entryView u e) = some (.num t.offset) ∧
         field "start" (entryView u e) = some (.str s.print) ∧ field "end" (entryView u e) = some (.str t.print) ∧
         e.minutes = t.offset - s.offset) :=
  KlogV.entryView_fields u e

/-- Every error object carries the line, column (= position + 1) and length of the parser error,
i.e. the same numbers as the terminal report (C10). -/
theorem error_view_faithful (file : List Char) (e : GErr) :
    field "line" (errorView file e) = some (.num e.lineNumber) ∧
    field "column" (errorView file e) = some (.num (e.pos + 1)) ∧
    field "length" (errorView file e) = some (.num e.len) :=
  KlogV.errorView_fields file e

example : (JVal.obj [("a\"b".toList, .arr [.num (-3), .null, .str "x\n\\ <".toList]), ("e".toList, .obj [])]).compact =
    "{\"a\\\"b\":[-3,null,\"x\\n\\\\\\u2028<\"],\"e\":{}}".toList := by decide

end KlogV.C20
