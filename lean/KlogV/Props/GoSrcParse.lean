/-
THE TWO VALUE PARSERS OF THE GO SOURCE, TRANSLATED, ARE THE MODEL'S PARSERS (continuation of KlogV/Props/GoSrc.lean).
Property theorems only (helper lemmas: KlogV/Lemmas/GoSrcC*.lean).
-/
import KlogV.Lemmas.GoSrcC
namespace KlogV.GoTie
open KlogV.Go

/-! ## The two parsers behind a regular expression
`FindStringSubmatch` is a parameter of the translated function.  What it returns is given by the capture groups of the
pattern, which the translator tie (Props/Rx/Values.lean) and `Regexes.time_marked` / `time_groups` / `duration_marked` /
`duration_groups` (Props/Rx/Model.lean) determine: on a string of the pattern's shape, the string itself and the text of each
group (empty for a group that takes no part); `nil` otherwise. -/


/-- `NewTimeFromString` is the model's `Time.parse` -/
theorem newTimeFromString_eq (find : Str → List Str) (hf : TimeFind find) (s : List Char) :
    (GoSrc.NewTimeFromString find s).res = (optRes (Time.parse s)).map Time.toGo :=
  GoL.newTimeFromString_eq find hf s


/-- `NewDurationFromString` is the model's `Dur.parse`, panics on 20-digit numbers (findings D1/D2) included -/
theorem newDurationFromString_eq (find : Str → List Str) (hf : DurFind find) (s : List Char) :
    (GoSrc.NewDurationFromString find s).res = (Dur.parse s).map Dur.toGo :=
  GoL.newDurationFromString_eq find hf s

end KlogV.GoTie
