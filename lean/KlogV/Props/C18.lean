/-
C18 — Colour and styling never change what is printed.
Property theorems only (helper lemmas: KlogV/Lemmas/Strip.lean).
-/
import KlogV.Lemmas.Strip
import KlogV.Gen.Themes
import KlogV.Props.Rx.Ansi
import KlogV.Props.Rx.Model
namespace KlogV.C18

/-- `s` is a concatenation of complete SGR sequences (`ESC [ [0-9;]+ m`). -/
abbrev IsSeqs (s : List Char) : Prop := KlogV.IsSeqs s

/-- A styler all of whose emitted strings are concatenations of complete SGR sequences. -/
def SeqStyler (st : Styler) : Prop := IsSeqs st.reset ∧ ∀ p, IsSeqs (st.seqs p)

/-- Regenerated on every run from the real `tf.Styler`: for every colour theme and every
combination of colour / underlined / bold, the emitted prefix and reset are concatenations of
complete SGR sequences (possibly empty). If a theme ever emits anything else this stops checking. -/
theorem theme_seqs_complete : ∀ r ∈ Gen.themeTable, KlogV.isSeqsB r.2.2.2.2.1.toList = true ∧ KlogV.isSeqsB r.2.2.2.2.2.toList = true := by
  decide +kernel

theorem isSeqsB_iff (s : List Char) : KlogV.isSeqsB s = true ↔ IsSeqs s := KlogV.isSeqsB_iff s

/-- Stripping removes complete sequences in front of any text. -/
theorem strip_seqs_append (s rest : List Char) (h : IsSeqs s) : strip (s ++ rest) = strip rest :=
  KlogV.strip_seqs_append s rest h

/-- Inserting complete sequences between `a` and `b` does not change the stripped text, as long
as `a` does not end in the beginning of a sequence that `b` would complete (`NoDangling a`):
the inserted sequences start with ESC, which cuts a dangling beginning off in the styled text,
and in the unstyled text nothing completes it either when `b` starts with a character that is
not part of a sequence body — which is what `SafeJoin a b` demands. -/
theorem strip_insert (a s b : List Char) (hs : IsSeqs s) (hj : KlogV.SafeJoin a b) :
    strip (a ++ s ++ b) = strip (a ++ b) :=
  KlogV.strip_insert a s b hs hj

/-- Wrapping the tags of a line in complete sequences does not change its stripped text: a tag
starts with `#`, which is not part of any sequence, and a tag that contains ESC ends in a quote. -/
theorem strip_wrapTags (u : UTab) (l r : List Char) (hl : IsSeqs l) (hr : IsSeqs r) (line : List Char)
    (hu : u.isLetter ESC = false ∧ u.isLetter '[' = false) :
    strip (wrapTags u l r line) = strip line :=
  KlogV.strip_wrapTags u l r hl hr line hu

/-- Styled summary, entry value, record and document: removing the sequences from the styled
text gives the same as removing them from the unstyled text (identical text when the input
contains no escape sequences of its own). -/
theorem styledSummary_strip (u : UTab) (st : Styler) (hs : SeqStyler st) (line : List Char)
    (hu : u.isLetter ESC = false ∧ u.isLetter '[' = false) :
    strip (styledSummary u st line ++ ['\n']) = strip (line ++ ['\n']) :=
  KlogV.styledSummary_strip u st hs line hu

theorem render_strip (u : UTab) (st : Styler) (hs : SeqStyler st) (rs : List Record)
    (hu : u.isLetter ESC = false ∧ u.isLetter '[' = false) :
    strip (styledPrintRecords u st rs) = strip (printRecords rs) :=
  KlogV.styledPrint_strip u st hs rs hu

/-- With styling disabled nothing is inserted at all. -/
theorem render_no_colour (u : UTab) (rs : List Record) : styledPrintRecords u noColour rs = printRecords rs :=
  KlogV.styledPrint_noColour u rs

/-- Tables: every row has the same number of visible characters (sum of the column widths plus
separators), whatever sequences the cells contain, provided no cell ends in a dangling beginning
of a sequence (`NoDangling`) — cells are followed by padding, a separator or the end of the line. -/
theorem table_aligned (ncols : Nat) (sep : List Char) (cells : List Cell) (hn : 0 < ncols)
    (hfull : cells.length % ncols = 0) (hsep : strip sep = sep ∧ KlogV.NoEscape sep)
    (hc : ∀ c ∈ cells, c.fill = false ∧ KlogV.NoDangling c.value) :
    ∀ row ∈ renderRows ncols sep cells,
      (strip row).length = (columnWidths ncols cells).sum + (ncols - 1) * sep.length :=
  KlogV.renderRows_aligned ncols sep cells hn hfull hsep hc

example : strip ("a" ++ "\x1b[3" ++ "\x1b[0m" ++ "m").toList = "a\x1b[3m".toList ∧ strip ("a" ++ "\x1b[3" ++ "m").toList = "a".toList := by decide

end KlogV.C18
