/-
C14 — Tags are recognised, matched and totalled as the specification defines.
Property theorems only (helper lemmas: KlogV/Lemmas/TagsSpec.lean).
`u : UTab` supplies the Unicode notion of "letter" and lower-casing (instantiated by the driver
with tables dumped from Go's unicode package); the theorems hold for every such table.
-/
import KlogV.Lemmas.TagsSpec
import KlogV.Props.Rx.Tags
import KlogV.Props.Rx.Model
namespace KlogV.C14

/-- The scanner finds exactly the tags the specification's grammar defines … -/
theorem scan_sound (u : UTab) (line : List Char) : Spec.TagsOf u line (scanTags u line) :=
  KlogV.scanTags_sound u line

/-- … and the grammar is unambiguous, so these are the only ones. -/
theorem scan_complete (u : UTab) (line : List Char) (ts : List Tag) (h : Spec.TagsOf u line ts) :
    ts = scanTags u line :=
  KlogV.scanTags_complete u line ts h

/-- Names are compared case-insensitively: they are stored lower-cased (for an idempotent
lower-casing function, as Unicode's is). -/
theorem name_lowercased (u : UTab) (hl : ∀ c, u.lower (u.lower c) = u.lower c) (line : List Char) :
    ∀ t ∈ scanTags u line, t.name.map u.lower = t.name :=
  KlogV.scanTags_name_lower u hl line

/-- Values are taken literally (case-sensitively): a value is a contiguous piece of the line. -/
theorem value_literal (u : UTab) (line : List Char) :
    ∀ t ∈ scanTags u line, ∃ pre post, line = pre ++ t.value ++ post :=
  KlogV.scanTags_value_infix u line

/-- An empty or unterminated value counts as absent: `#tag=`, `#tag=""`, `#tag="x` all yield the
bare tag. -/
example : scanTags ⟨Char.isAlpha, Char.toLower⟩ "#Tag= #tag=\"\" #TAG=\"x".toList =
    [⟨"tag".toList, []⟩, ⟨"tag".toList, []⟩, ⟨"tag".toList, []⟩] := by decide

example : scanTags ⟨Char.isAlpha, Char.toLower⟩ "a#b_1-c=\"x y\" #d='q\"' ##e=f.g".toList =
    [⟨"b_1-c".toList, "x y".toList⟩, ⟨"d".toList, "q\"".toList⟩, ⟨"e".toList, "f".toList⟩] := by decide

/-- Record-level tags apply to every entry: the tag set of an entry contains all tags (and bare
names) of its record's summary and of its own summary. -/
theorem record_tags_apply_to_entries (u : UTab) (r : Record) (e : Entry) (t : Tag) :
    t ∈ entryTagSet u r e ↔ (t ∈ lookupSet (summaryTags u r.summary) ∨ t ∈ lookupSet (summaryTags u e.summary)) :=
  KlogV.entryTagSet_iff u r e t

/-- A tag with value also matches its bare name. -/
theorem value_matches_bare_name (ts : List Tag) (t : Tag) : t ∈ lookupSet ts ↔ (t ∈ ts ∨ (t.value = [] ∧ ∃ t' ∈ ts, t'.name = t.name)) :=
  KlogV.mem_lookupSet ts t

/-- All (record, entry) pairs of a list of records, in order. -/
def allEntries (rs : List Record) : List (Record × Entry) := rs.flatMap (fun r => r.entries.map (fun e => (r, e)))

/-- `klog tags`: each tag (and tag=value) is listed once; its total is the sum of the durations
of exactly the entries that carry it (own or record-level), each entry counted once, and its count
is the number of those entries. -/
theorem count_once (u : UTab) (rs : List Record) :
    ((aggregateTags u rs).map (·.tag)).Nodup ∧
    ∀ s ∈ aggregateTags u rs,
      s.total = (((allEntries rs).filter (fun p => (entryTagSet u p.1 p.2).contains s.tag)).map (fun p => p.2.minutes)).sum ∧
      s.count = ((allEntries rs).filter (fun p => (entryTagSet u p.1 p.2).contains s.tag)).length ∧ 0 < s.count :=
  KlogV.aggregateTags_spec u rs

theorem listed_iff_carried (u : UTab) (rs : List Record) (t : Tag) :
    t ∈ (aggregateTags u rs).map (·.tag) ↔ ∃ p ∈ allEntries rs, t ∈ entryTagSet u p.1 p.2 :=
  KlogV.aggregateTags_mem u rs t

end KlogV.C14
