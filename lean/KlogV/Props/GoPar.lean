/-
THE GO SOURCE OF THE PARALLEL PARSER'S CHUNKING, TRANSLATED, COMPUTES THE MODEL'S CHUNKS.
`KlogV/Gen/GoPar.lean` is regenerated on every run by `klogv extract` from klog/parser/engine/parallel.go
(`splitIntoChunks`, `isWithinCrLf`; the goroutines and the generic merge are outside the fragment).  The model's
`splitIntoChunks` is the function whose cuts `C07.chunks_good_cuts` proves to be good (never inside a UTF-8 sequence,
never inside CRLF — the place of defect D17), which is what `C07.merge_eq_serial` needs.  The inner loop of the Go code
is bounded only by the length of the text; its fuel is a parameter of the translated function, and the theorem holds for
EVERY fuel larger than the length of the text.
Property theorems only (helper lemmas: KlogV/Lemmas/GoPar*.lean).
-/
import KlogV.Lemmas.GoPar
namespace KlogV.GoTie
open KlogV.Go

/-- `splitIntoChunks(txt, n)` for every text below 2⁵³ bytes (the range in which `float64(len(txt))` is exact) and every
worker count `1 ≤ n` below 2⁵³ -/
theorem splitIntoChunks_eq (t : Bytes) (n fuel : Nat) (hn : 1 ≤ n) (hn2 : n < 9007199254740992)
    (hlen : t.length < 9007199254740992) (hf : t.length < fuel) :
    GoPar.splitIntoChunks fuel t (n : Int) = .ok (splitIntoChunks t n) :=
  GoL.splitIntoChunks_eq t n fuel hn hn2 hlen hf

/-- non-vacuity: a CRLF straddling the middle of the text is not cut (D17) -/
example : (GoPar.splitIntoChunks 10 [0x61, 0x0D, 0x0A, 0x62] 2).toOption = some [[0x61, 0x0D, 0x0A], [0x62]] := by decide

end KlogV.GoTie
