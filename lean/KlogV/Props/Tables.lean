/-
Regenerated-table ties: facts about tables that `klogv extract` dumps from the Go toolchain /
klog code on every run.  If the code's table changes, these theorems stop checking.
(Further regenerated tables are used in Props/C18.lean (theme sequences) and in the model of
`klog json` (error titles and details, KlogV/Gen/ErrorTexts.lean).)
-/
import KlogV.Model.Record
import KlogV.Model.Parser
import KlogV.Model.Reconciler
import KlogV.Model.Calendar
import KlogV.Gen.Zs
import KlogV.Gen.Constants
namespace KlogV.Tables

/-- The model's `\p{Zs}` is exactly Go's `unicode.Zs`. -/
theorem zs_table_agrees : KlogV.Gen.zsTable = KlogV.zsList := by decide

/-- `txt.Indentations` — the styles and the ORDER in which parser and reconciler try them. -/
theorem indentations_agree :
    KlogV.Gen.indentations = KlogV.indentations.map (fun cs => cs.map Char.toNat) ∧
    KlogV.Gen.indentations = KlogV.indentationBytes.map (fun bs => bs.map UInt8.toNat) := by decide

/-- `txt.LineEndings`: CRLF is tried before LF (as `Line.ofRaw` does). -/
theorem line_endings_agree : KlogV.Gen.lineEndings = [[13, 10], [10]] := by decide

/-- the roundings klog accepts are those the C17 theorems are stated for -/
theorem roundings_agree : KlogV.Gen.roundings = [5, 10, 12, 15, 20, 30, 60] := by decide

/-- bit positions of the bucket hashes (recovered from hashes of neighbouring dates) are those of
the model's `hashOf`, for which C15.hash_eq_iff is proved -/
theorem hash_shifts_agree :
    KlogV.Gen.hashShifts = [bitsDay, bitsDay + bitsMonth, bitsWeek, bitsMonth, bitsQuarter] := by decide

end KlogV.Tables
