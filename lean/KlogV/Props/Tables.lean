/-
Regenerated-table ties: facts about tables that `klogv extract` dumps from the Go toolchain /
klog code on every run.  If the code's table changes, these theorems stop checking.
-/
import KlogV.Model.Record
import KlogV.Gen.Zs
namespace KlogV.Tables

/-- The model's `\p{Zs}` is exactly Go's `unicode.Zs`. -/
theorem zs_table_agrees : KlogV.Gen.zsTable = KlogV.zsList := by decide

end KlogV.Tables
