/-
C08 — Reading a file loses nothing: blocks and lines reproduce the text exactly.
Property theorems only; helper lemmas are in KlogV/Lemmas/Lines.lean.
All statements are for every byte string (no validity or encoding hypothesis).
-/
import KlogV.Lemmas.Lines
import KlogV.Props.Tables
namespace KlogV.C08

/-- Splitting a text into lines and writing each line out again (text plus line ending)
reproduces the text byte for byte. -/
theorem lines_reproduce (t : Bytes) : joinLines (splitLines t) = t := joinLines_splitLines t

/-- If the text has at least one significant (non-blank) line, concatenating the original lines
of all blocks reproduces the text byte for byte. -/
theorem blocks_concat (t : Bytes) (h : ∃ l ∈ splitLines t, l.isBlank = false) :
    joinLines (blocksOf t).flatten = t := by
  unfold blocksOf blocksOfLines
  rw [blocksGo_flatten .pre [] _ (Or.inr h)]
  simpa using joinLines_splitLines t

/-- Only a text consisting solely of blank lines yields no blocks … -/
theorem blank_text_no_blocks (t : Bytes) (h : ∀ l ∈ splitLines t, l.isBlank = true) :
    blocksOf t = [] := blocksGo_pre_allBlank [] _ h

/-- … and every other text yields at least one. -/
theorem nonblank_text_has_blocks (t : Bytes) (h : ∃ l ∈ splitLines t, l.isBlank = false) :
    blocksOf t ≠ [] := by
  intro hn
  have := blocks_concat t h
  rw [hn] at this
  obtain ⟨l, hl, hb⟩ := h
  have ht : t = [] := by simpa [joinLines] using this.symm
  subst ht
  simp [splitLines, splitRaw] at hl

/-- Each block is: blank lines, one run of significant lines (one record's lines), blank lines;
and only the first block can have leading blank lines. -/
theorem one_record_per_block (t : Bytes) :
    blocksOf t = [] ∨ ∃ b bs, blocksOf t = b :: bs ∧ BlockShape true b ∧ ∀ b' ∈ bs, BlockShape false b' :=
  blocksGo_shape true .pre [] _ ⟨rfl, by simp⟩

/-- Block line numbers are consecutive, starting at the first line of the file: block `i`
starts at the global line index that equals the number of lines of all earlier blocks. -/
theorem line_numbers_consecutive (t : Bytes) (i : Nat) (h : i < (blocksOf t).length) :
    (firstLineIndices 0 (blocksOf t))[i]? = some (((blocksOf t).take i).map List.length).sum := by
  simpa using firstLineIndices_spec 0 (blocksOf t) i h

/-- Non-vacuity: a concrete text with CRLF, a whitespace-only line, an invalid byte and no
final newline meets the hypothesis of `blocks_concat` and has two blocks. -/
example : (∃ l ∈ splitLines [97, 13, 10, 32, 10, 10, 0xff, 98], l.isBlank = false) ∧
    (blocksOf [97, 13, 10, 32, 10, 10, 0xff, 98]).length = 2 := by decide

end KlogV.C08
