/-
C03 — Mutating commands touch only the lines they are defined to change.
Property theorems only (helper lemmas: KlogV/Lemmas/Edits.lean).
The reconciler works on the list of lines of the file (text + line ending each); the new file
is the concatenation of the lines' originals.  Every edit is one of three primitives, whose exact
effect on the line list is proved here; the commands are compositions of them.
-/
import KlogV.Lemmas.Edits
import KlogV.Lemmas.CommandEdits
import KlogV.Props.C08
import KlogV.Props.Rx.Reconciler
import KlogV.Props.Rx.Model
namespace KlogV.C03

/-- Splicing: every line before the insertion point survives byte-for-byte (text and ending) —
except that the line directly before it gains the style's line ending if it had none —, the new
lines form one contiguous block, and every line from the insertion point on survives, shifted. -/
theorem insert_spec (st : Style) (lines : List Line) (idx : Nat) (texts : List Insertable) (h : idx ≤ lines.length) :
    (insertLines st lines idx texts).length = lines.length + texts.length ∧
    (∀ i, i + 1 < idx → (insertLines st lines idx texts)[i]? = lines[i]?) ∧
    (∀ l, idx ≥ 1 → lines[idx - 1]? = some l →
      (insertLines st lines idx texts)[idx - 1]? = some { l with ending := if l.ending = .none then st.lineEnding.1 else l.ending }) ∧
    (∀ k, k < texts.length → (insertLines st lines idx texts)[idx + k]? = (texts[k]?).map (mkLine st)) ∧
    (∀ i, idx ≤ i → (insertLines st lines idx texts)[i + texts.length]? = lines[i]?) :=
  KlogV.insertLines_spec st lines idx texts h

/-- Rewriting one line leaves every other line, the number of lines and all line endings alone. -/
theorem modify_spec (lines : List Line) (i : Nat) (f : Bytes → Bytes) :
    (modifyLine lines i f).length = lines.length ∧
    (∀ j, j ≠ i → (modifyLine lines i f)[j]? = lines[j]?) ∧
    (∀ l, lines[i]? = some l → (modifyLine lines i f)[i]? = some { l with text := f l.text }) :=
  KlogV.modifyLine_spec lines i f

/-- Closing an open range replaces exactly the first run of `?` on the line: text before it and
after it is kept; a line without `?` is left alone. -/
theorem replace_placeholder_spec (pre qs rest repl : Bytes) (hpre : ∀ b ∈ pre, b ≠ 63) (hqs : qs ≠ [] ∧ ∀ b ∈ qs, b = 63)
    (hrest : rest.head? ≠ some 63) :
    replaceQuestionMarks (pre ++ qs ++ rest) repl = pre ++ repl ++ rest :=
  KlogV.replaceQuestionMarks_spec pre qs rest repl hpre hqs hrest

theorem replace_placeholder_none (text repl : Bytes) (h : ∀ b ∈ text, b ≠ 63) : replaceQuestionMarks text repl = text :=
  KlogV.replaceQuestionMarks_none text repl h

/-- Extending a pause replaces exactly the duration token (the first blank-delimited token after
the indentation); the indentation before it and everything after it — the summary — is kept
(the former D8: a `-word` in the summary was rewritten instead). -/
theorem replace_token_spec (lead tok rest repl : Bytes) (hl : ∀ b ∈ lead, isBlankByte b = true)
    (ht : tok ≠ [] ∧ ∀ b ∈ tok, isBlankByte b = false) (hr : rest = [] ∨ ∃ b r, rest = b :: r ∧ isBlankByte b = true) :
    replaceFirstToken (lead ++ tok ++ rest) repl = lead ++ repl ++ rest :=
  KlogV.replaceFirstToken_spec lead tok rest repl hl ht hr

/-- `track`: appending an entry is one splice at the record's last line pointer; record, style
and pointers are untouched. -/
theorem append_entry_spec (r r' : Reconciler) (entry : List Bytes) (h : r.appendEntry entry = some r') :
    r'.lines = insertLines r.style r.lines r.lastLine (toMultilineEntryTexts [] entry) ∧
    r'.record = r.record ∧ r'.style = r.style ∧ r'.lastLine = r.lastLine ∧ r'.recIdx = r.recIdx :=
  KlogV.appendEntry_spec r r' entry h

/-- `start`: one splice at the last line pointer, with the open range written in the style. -/
theorem start_open_range_spec (r r' : Reconciler) (t : Time) (fmt : Reformat Bool) (summary : List Bytes)
    (h : r.startOpenRange t fmt summary = some r') :
    ∃ value : Bytes, r'.lines = insertLines r.style r.lines r.lastLine (toMultilineEntryTexts value summary) ∧ r'.record = r.record :=
  KlogV.startOpenRange_spec r r' t fmt summary h

-- repaired after the model followed fix D18 (no second separator after a dangling blank)
/-- `stop`: the line with the open range has its placeholder replaced, the entry's last summary
line gets text appended at its end, further summary lines are one splice directly after it; every
other line is untouched. -/
-- FALSE: with the conjunct `valueLine ≤ lastLine` the statement fails for a reconciler whose open-range
-- entry has an EMPTY summary list (the parser never produces one: at least one line): r.record.entries =
-- [⟨.openRange 8:00 true 0, []⟩], r.lastLine = 2, r.lines = ["2021-03-04", "    a", "    8:00 - ?"],
-- add = ["x"]: closeOpenRange 9:00 gives ["2021-03-04", "    a x", "    8:00 - 9:00"], i.e. valueLine = 2 and
-- lastLine = 2 + 0 - 1 = 1.  Corrected below: `valueLine ≤ lastLine + 1` (only that conjunct is weakened).
-- theorem close_open_range_spec (r r' : Reconciler) (e : Time) (fmt : Reformat Bool) (add : List Bytes)
--     (h : r.closeOpenRange e fmt add = some r') :
--     ∃ (valueLine lastLine : Nat) (endValue : Bytes) (mid : List Line),
--       valueLine ≤ lastLine ∧
--       mid = modifyLine (modifyLine r.lines valueLine (fun t => replaceQuestionMarks t endValue)) lastLine
--               (fun t => t ++ (match add with | [] => [] | a0 :: _ => (if a0.isEmpty then [] else [SP]) ++ a0)) ∧
--       r'.lines = (match add with
--                   | _ :: (x :: xs) => insertLines r.style mid (lastLine + 1) ((x :: xs).map (fun s => (s, 2)))
--                   | _ => mid) :=
--   KlogV.closeOpenRange_spec r r' e fmt add h
theorem close_open_range_spec (r r' : Reconciler) (e : Time) (fmt : Reformat Bool) (add : List Bytes)
    (h : r.closeOpenRange e fmt add = some r') :
    ∃ (valueLine lastLine : Nat) (endValue : Bytes) (mid : List Line) (sep : Bytes),
      valueLine ≤ lastLine + 1 ∧ (sep = [] ∨ sep = [SP]) ∧
      mid = modifyLine (modifyLine r.lines valueLine (fun t => replaceQuestionMarks t endValue)) lastLine
              (fun t => t ++ (match add with | [] => [] | a0 :: _ => sep ++ a0)) ∧
      r'.lines = (match add with
                  | _ :: (x :: xs) => insertLines r.style mid (lastLine + 1) ((x :: xs).map (fun s => (s, 2)))
                  | _ => mid) :=
  KlogV.closeOpenRange_spec r r' e fmt add h

/-- `pause --extend` / every tick of `pause`: at most one line is rewritten (its duration token);
nothing is added or removed. -/
theorem extend_pause_spec (r r' : Reconciler) (inc : Int) (h : r.extendPause inc = .ok r') :
    r'.lines = r.lines ∨ ∃ (i : Nat) (repl : Bytes), r'.lines = modifyLine r.lines i (fun t => replaceFirstToken t repl) :=
  KlogV.extendPause_spec r r' inc h

/-- A new record is one splice of `headline, summary lines` plus ONE separating blank line
(before it when appended after a record, after it when placed in front of the first record). -/
-- FALSE: without a hypothesis on the summary lines: ad.summary = some [[], []], rs = bos = [] inserts the
-- headline and TWO empty texts (reconcilerForNewRecord 2021-03-04 .none {summary := some [[], []]} [] [] has lines
-- of text lengths [10, 0, 0]), so the count of empty texts is 2.  Corrected below with the minimal hypothesis
-- that no summary line is empty (a valid record summary has no empty line: `okRecordSummaryLine`).
-- theorem new_record_spec (date : Date) (fmt : Reformat Bool) (ad : AdditionalData) (rs : List Record) (bos : List BlockOut) :
--     ∃ (idx : Nat) (texts : List Insertable),
--       (reconcilerForNewRecord date fmt ad rs bos).lines = insertLines (elect {} rs (bos.map (·.lines))) (bos.map (·.lines)).flatten idx texts ∧
--       (texts.filter (fun t => t.1.isEmpty)).length ≤ 1 ∧ texts.length = 1 + (ad.summary.getD []).length + (if rs.isEmpty then 0 else 1) :=
--   KlogV.reconcilerForNewRecord_spec date fmt ad rs bos
theorem new_record_spec (date : Date) (fmt : Reformat Bool) (ad : AdditionalData) (rs : List Record) (bos : List BlockOut)
    (hs : ∀ s ∈ ad.summary.getD [], s ≠ []) :
    ∃ (idx : Nat) (texts : List Insertable),
      (reconcilerForNewRecord date fmt ad rs bos).lines = insertLines (elect {} rs (bos.map (·.lines))) (bos.map (·.lines)).flatten idx texts ∧
      (texts.filter (fun t => t.1.isEmpty)).length ≤ 1 ∧ texts.length = 1 + (ad.summary.getD []).length + (if rs.isEmpty then 0 else 1) :=
  KlogV.reconcilerForNewRecord_spec date fmt ad rs bos hs

/-- The text written is the concatenation of the lines: nothing else is produced. -/
theorem result_is_lines (r : Reconciler) (text : Bytes) (rec : Record) (h : r.makeResult = .ok (text, rec)) :
    text = joinLines r.lines :=
  KlogV.makeResult_text r text rec h

/-! ### Whole commands -/

/-- `new` arises from `old` by `i` splices (`insert_spec`) and `m` single-line text rewrites (`modify_spec`). -/
abbrev Edits (i m : Nat) (old new : List Line) : Prop := KlogV.Edits i m old new

/-- upper bounds (splices, rewrites) per command: track (2,0), create (1,0), start (2,0), stop (1,2),
switch (2,2), pause — its first step — (1,1) -/
abbrev editBound (c : Cmd) : Nat × Nat := KlogV.editBound c

/-- Every successful command writes the lines of the old file (all of them: C08) changed by at most
that many splices and single-line rewrites — track/start: the entry line(s), and the new record if
the date has none; create: the record; stop: the placeholder, the end of the entry's last summary
line, further summary lines; switch: both; pause: the pause entry, or with `--extend` its duration
token.  Every other line is written back byte for byte (`insert_spec`, `modify_spec`). -/
theorem command_edits (u : UTab) (cfg : Config) (now : Instant) (c : Cmd) (file file' : Bytes)
    (hp : ∀ s n e t, c = .pause s n e t → t = [])
    (h : runCmd u cfg now c file = .ok file') :
    ∃ (i m : Nat) (lines' : List Line), file' = joinLines lines' ∧
      Edits i m (blocksOf file).flatten lines' ∧ i ≤ (editBound c).1 ∧ m ≤ (editBound c).2 :=
  KlogV.command_edits u cfg now c file file' hp h

/-- Every tick of the `pause` loop rewrites at most one line (the pause's duration token). -/
theorem pause_tick_edits (today yesterday : Date) (inc : Int) (file file' : Bytes)
    (h : (reconcileFile file
        (fun rs bos => firstCreator [reconcilerAtRecord today rs bos, reconcilerAtRecord yesterday rs bos])
        [fun r => r.extendPause (-inc)]).1 = .ok file') :
    ∃ (m : Nat) (lines' : List Line), file' = joinLines lines' ∧ Edits 0 m (blocksOf file).flatten lines' ∧ m ≤ 1 :=
  KlogV.pause_tick_edits today yesterday inc file file' h

/-- Splices alone lose, reorder and alter nothing: the texts of the old lines are a subsequence of
the texts of the new lines. -/
theorem edits_texts_sublist (i : Nat) (old new : List Line) (h : Edits i 0 old new) :
    (old.map (·.text)).Sublist (new.map (·.text)) :=
  KlogV.edits_texts_sublist i old new h

theorem edits_length (i m : Nat) (old new : List Line) (h : Edits i m old new) : old.length ≤ new.length :=
  KlogV.edits_length i m old new h

/-- A command that changes nothing writes back the identical file (for a text with at least one
significant line): the lines of all blocks concatenate to the input (C08). -/
theorem noop_identity (t : Bytes) (h : ∃ l ∈ splitLines t, l.isBlank = false) :
    joinLines (blocksOf t).flatten = t :=
  KlogV.C08.blocks_concat t h

end KlogV.C03
