/-
THE GO SOURCE OF THE LINE / BLOCK LAYER, TRANSLATED, COMPUTES THE MODEL'S LINES AND BLOCKS.
`KlogV/Gen/GoTxt.lean` is regenerated on every run by `klogv extract` from klog/parser/txt/line.go and block.go
(harness/extract_gosrc.go; in this unit a Go string is a sequence of bytes and `range` decodes UTF-8:
KlogV/GoSem/Txt.lean).  `ParseBlock` — one pass over the runes of the text with three modes, `utf8.DecodeLastRuneInString`
for the end of the text (the place of defect D5) — returns for EVERY byte sequence the first block of the model's
`blocksOf` and the number of bytes that block covers; the model's blocks are the ones the theorems of C08 (the blocks
reproduce the text), C07 (chunking) and C06 (totality) are about.
Property theorems only (helper lemmas: KlogV/Lemmas/GoTxt*.lean).
-/
import KlogV.Lemmas.GoTxt
namespace KlogV.GoTie
open KlogV.Go

/-- `NewLineFromString`: `\r\n` before `\n`, else no line ending -/
theorem newLineFromString_eq (raw : Bytes) (hlen : (raw.length : Int) < 9223372036854775808) : GoTxt.NewLineFromString raw = .ok (Line.ofRaw raw).toGo :=
  GoL.newLineFromString_eq raw hlen

theorem line_original_eq (l : Line) : l.toGo.Original = .ok l.original :=
  GoL.line_original_eq l

/-- `IsBlank` looks at the RUNES of the line, the model at its bytes: the same for every byte sequence, valid UTF-8 or not -/
theorem line_isBlank_eq (l : Line) : l.toGo.IsBlank = .ok l.isBlank :=
  GoL.line_isBlank_eq l

/-- `ParseBlock`, for every text a Go string can hold (fewer than 2⁶³ bytes) and every line count (never a panic: C06) -/
theorem parseBlock_eq (t : Bytes) (n : Int) (hlen : (t.length : Int) < 9223372036854775808) : GoTxt.ParseBlock t n = .ok (firstBlock t n) :=
  GoL.parseBlock_eq t n hlen

/-- what follows the first block is parsed from where `ParseBlock` stopped: the serial parser's loop yields `blocksOf` -/
theorem blocksOf_drop (t : Bytes) (b : List Line) (bs : List (List Line)) (h : blocksOf t = b :: bs) :
    blocksOf (t.drop (countBytes b)) = bs :=
  GoL.blocksOf_drop t b bs h

/-- `SignificantLines` of a block that has a significant line (every block `ParseBlock` returns has one) -/
theorem significantLines_eq (b : List Line) (n : Int) (h : b.any (fun l => !l.isBlank) = true)
    (hlen : (b.length : Int) < 9223372036854775808) :
    (⟨n, b.map Line.toGo⟩ : GoTxt.block).SignificantLines =
      .ok ((significant b).1.map Line.toGo, ((significant b).2.1 : Int), ((significant b).2.2 : Int)) :=
  GoL.significantLines_eq b n h hlen

/-- non-vacuity: a text with CRLF, a multi-byte character and an invalid last byte -/
example : (GoTxt.ParseBlock [0x20, 0x0A, 0xC3, 0xA4, 0x0D, 0x0A, 0x0A, 0x78, 0xFF] 0).toOption =
    some (some ⟨0, [⟨[0x20], [0x0A]⟩, ⟨[0xC3, 0xA4], [0x0D, 0x0A]⟩, ⟨[], [0x0A]⟩]⟩, 7) := by decide

end KlogV.GoTie
