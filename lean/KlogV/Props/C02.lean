/-
C02 — Total, should-total and diff follow the specification's evaluation rules.
Property theorems only (helper lemmas: KlogV/Lemmas/Totality.lean, KlogV/Lemmas/Eval.lean).
-/
import KlogV.Lemmas.Eval
namespace KlogV.C02

/-- A time denotes the minute `1440·shift + 60·hour + minute` relative to the record's midnight:
`<` times lie on the previous, `>` times on the next day. -/
theorem time_offset_spec (t : Time) (h : t.wf = true) : t.offset = 1440 * t.shift + 60 * t.h + t.min :=
  KlogV.Time.offset_spec t h

/-- An entry counts: its signed duration; for a range end − start; for an open range nothing. -/
theorem entry_minutes_spec (e : Entry) :
    e.minutes = match e.val with
      | .dur d => d.mins
      | .range s t _ => t.offset - s.offset
      | .openRange _ _ _ => 0 := by
  cases e with | mk v s => cases v <;> rfl

/-- Within the int64 range the reported total is exactly the sum over all entries of all
records (records sharing a date stay separate and simply add; every entry counts fully, no term
mentions another entry or record). -/
theorem total_eq_spec (rs : List Record)
    (h : ∀ n, inRange (((rs.flatMap (fun r => r.entries.map Entry.minutes)).take n).sum) = true)
    (hx : ∀ x ∈ rs.flatMap (fun r => r.entries.map Entry.minutes), inRange x = true) :
    totalRes rs = .ok (totalMins rs) :=
  KlogV.totalRes_eq rs h hx

theorem total_append (a b : List Record) : totalMins (a ++ b) = totalMins a + totalMins b :=
  KlogV.totalMins_append a b

theorem total_cons (r : Record) (rs : List Record) : totalMins (r :: rs) = (r.entries.map Entry.minutes).sum + totalMins rs :=
  KlogV.totalMins_cons r rs

/-- The should-total is the sum of the records' should-totals; the diff is total − should. -/
theorem should_eq_spec (rs : List Record)
    (h : ∀ n, inRange (((rs.map Record.shouldMins).take n).sum) = true)
    (hx : ∀ x ∈ rs.map Record.shouldMins, inRange x = true) :
    shouldRes rs = .ok (shouldSum rs) :=
  KlogV.shouldRes_eq rs h hx

theorem diff_eq_spec (s t : Int) (hs : inRange s = true) (ht : inRange t = true) (hd : inRange (t - s) = true) :
    diffRes s t = .ok (t - s) :=
  KlogV.diffRes_eq s t hs ht hd

/-- Closing open ranges at an instant: a record dated today gets its open range closed at
`now`, a record dated yesterday at `now + 24h`, every other record with an open range makes the
evaluation refuse; closing adds exactly `end − start` minutes to that record and touches nothing
else.  (Per record; `closeOne` is the per-record step of `closeOpenRanges`.) -/
theorem close_adds_exactly (e : Time) (es es' : List Entry) (h : endOpenRange e es = some es') :
    ∃ (pre post : List Entry) (s : Time) (sp : Bool) (x : Nat) (sm : List (List Char)),
      es = pre ++ ⟨.openRange s sp x, sm⟩ :: post ∧ es' = pre ++ ⟨.range s e true, sm⟩ :: post ∧
      s.offset ≤ e.offset ∧ (∀ p ∈ pre, isOpen p.val = false) ∧
      (es'.map Entry.minutes).sum = (es.map Entry.minutes).sum + (e.offset - s.offset) :=
  KlogV.endOpenRange_spec e es es' h

theorem close_refuses_iff (e : Time) (es : List Entry) :
    endOpenRange e es = none ↔ (∀ x ∈ es, isOpen x.val = false) ∨
      (∃ pre post s sp x sm, es = pre ++ ⟨.openRange s sp x, sm⟩ :: post ∧ (∀ p ∈ pre, isOpen p.val = false) ∧ e.offset < s.offset) :=
  KlogV.endOpenRange_none_iff e es

/-- `closeOpenRanges` never panics when a day before `now` exists, leaves records without an
open range untouched, keeps the number and order of records, and refuses (`.err`) exactly when
some record with an open range is dated neither today nor yesterday or its start is after now. -/
theorem close_open_ranges_spec (now : Instant) (rs : List Record) (y : Date) (hy : now.date.plusDays (-1) = some y) :
    closeOpenRanges now rs ≠ .panic ∧
    (∀ rs' c, closeOpenRanges now rs = .ok (rs', c) → rs'.length = rs.length ∧
      ∀ i (hi : i < rs.length) (hi' : i < rs'.length),
        (rs'[i]).date = (rs[i]).date ∧ ((rs[i]).hasOpen = false → rs'[i] = rs[i])) :=
  KlogV.closeOpenRanges_spec now rs y hy

/-- D12 witness: totals beyond int64 make Go panic. -/
example : totalRes [⟨⟨2020, 1, 1, true⟩, none, [], [⟨.dur ⟨9223372036854775807, false, 0⟩, [[]]⟩, ⟨.dur ⟨9223372036854775807, false, 0⟩, [[]]⟩]⟩] = .panic := by
  decide

end KlogV.C02
