/-
END TO END: THE GO SOURCE ITSELF SATISFIES THE SPECIFICATION.
The source tie (Props/GoSrc.lean, Props/GoCal.lean: the translated Go functions compute the model's functions) composed
with the property theorems about the model (Props/C16.lean): statements of C15, C16 and C02 about the
functions `klogv extract` produced from klog/time.go, range.go, date.go and service/period/*.go on this run — the model no
longer appears in them.  `goTimeOffset`, `GoTimeWF`, `GoDateValid`, `goDayNumber` (KlogV/GoSem/SpecDefs.lean) read a translated value.
Property theorems only (helper lemmas: KlogV/Lemmas/GoSpec.lean).
-/
import KlogV.Lemmas.GoSpec16
namespace KlogV.GoTie
open KlogV.Go

/-! ## C16: adding a duration to a time; ranges -/

/-- C16: "Adding a duration to a time gives the time that many minutes later when that lies between the start of the
previous and the end of the next day and an error otherwise" — about `(*time).Plus` of the Go source; beyond the 64-bit
range of the checked addition the refusal is a panic. -/
theorem go_time_plus (t : GoSrc.time) (d : GoSrc.duration) (ht : GoTimeWF t) (hd : inRange d.minutes = true) :
    ((-1440 ≤ goTimeOffset t + d.minutes ∧ goTimeOffset t + d.minutes < 2880) →
        ∃ r, t.Plus d = .ok r ∧ GoTimeWF r ∧ goTimeOffset r = goTimeOffset t + d.minutes ∧ r.format = t.format) ∧
    (¬ (-1440 ≤ goTimeOffset t + d.minutes ∧ goTimeOffset t + d.minutes < 2880) →
        inRange (goTimeOffset t + d.minutes) = true → (t.Plus d).res = .err) ∧
    (inRange (goTimeOffset t + d.minutes) = false → (t.Plus d).res = .panic) :=
  GoL.go_time_plus t d ht hd

/-- (As first written the statement promised an error for EVERY sum outside the window; the proof attempt returned the
counterexample `0:01` plus 2⁶³−1 minutes: the checked addition panics before the window is tested — findings D1/D12 seen
from another side.) -/
example : GoTimeWF ⟨0, 1, 0, ⟨true⟩⟩ ∧ inRange (9223372036854775807 : Int) = true ∧
    ((⟨0, 1, 0, ⟨true⟩⟩ : GoSrc.time).Plus ⟨9223372036854775807, ⟨false, 0⟩⟩).res = .panic := by decide

/-- C16: "a range is valid exactly when its end is not before its start and lasts end − start minutes" — about
`NewRangeWithFormat` and `(*timeRange).Duration` of the Go source. -/
theorem go_range (s e : GoSrc.time) (f : GoSrc.RangeFormat) (hs : GoTimeWF s) (he : GoTimeWF e) :
    (goTimeOffset s ≤ goTimeOffset e →
        GoSrc.NewRangeWithFormat s e f = .ok ⟨s, e, f⟩ ∧
        (⟨s, e, f⟩ : GoSrc.timeRange).Duration = .ok ⟨goTimeOffset e - goTimeOffset s, ⟨false, 0⟩⟩) ∧
    (¬ goTimeOffset s ≤ goTimeOffset e → (GoSrc.NewRangeWithFormat s e f).res = .err) :=
  GoL.go_range s e f hs he

/-- C16: `MidnightOffset` is the offset -/
theorem go_midnightOffset (t : GoSrc.time) (ht : GoTimeWF t) : t.MidnightOffset = .ok ⟨goTimeOffset t, ⟨false, 0⟩⟩ :=
  GoL.go_midnightOffset t ht

/-- non-vacuity -/
example : GoTimeWF ⟨23, 59, 1, ⟨false⟩⟩ := by decide

end KlogV.GoTie
