/-
C13 — Filters and sorting select exactly the matching data and never alter it.
Property theorems only (helper lemmas: KlogV/Lemmas/Query.lean).
-/
import KlogV.Lemmas.Query
namespace KlogV.C13

/-- The filter handles every record on its own, keeps the original order and drops the records
that do not match. -/
theorem filter_exact (u : UTab) (q : Query) (rs : List Record) :
    filterRecords u q rs = rs.filterMap (filterOne u q) := rfl

/-- A record that passes the filter is otherwise unchanged: same date, should-total, summary;
its entries are a sub-sequence (original order) of the original entries. -/
theorem filter_record_shape (u : UTab) (q : Query) (r r' : Record) (h : filterOne u q r = some r') :
    r'.date = r.date ∧ r'.should = r.should ∧ r'.summary = r.summary ∧ r'.entries.Sublist r.entries ∧
      (r'.entries ≠ [] ∨ r' = r) :=
  KlogV.filterOne_shape_strong u q r r' h

/-- Date clauses: a record passes exactly when its date satisfies the clause. -/
theorem filter_date_clauses (u : UTab) (at_ before after : Option Date) (r : Record) :
    (filterOne u { atDate := at_, beforeOrEqual := before, afterOrEqual := after } r).isSome =
      ((match at_ with | some d => d.sameDay r.date | none => true) &&
       (match before with | some d => d.afterOrEqual r.date | none => true) &&
       (match after with | some d => r.date.afterOrEqual d | none => true)) :=
  KlogV.filterOne_date u at_ before after r

/-- For valid dates `IsAfterOrEqual` is the order of the calendar. -/
theorem afterOrEqual_iff (a b : Date) (ha : a.valid = true) (hb : b.valid = true) :
    a.afterOrEqual b = true ↔ dayNumber b ≤ dayNumber a :=
  KlogV.afterOrEqual_iff_dayNumber a b ha hb

/-- `--after d` selects the dates strictly after `d`; `--before d` strictly before. -/
theorem after_exclusive (today d : Date) (q : Query) (r : Record) (hd : d.valid = true) (hr : r.date.valid = true)
    (h : flagsToQuery today { after := some d } = .ok q) :
    (∃ d', q.afterOrEqual = some d' ∧ (r.date.afterOrEqual d' = true ↔ dayNumber d < dayNumber r.date)) :=
  KlogV.flags_after today d q r hd hr h

theorem before_exclusive (today d : Date) (q : Query) (r : Record) (hd : d.valid = true) (hr : r.date.valid = true)
    (h : flagsToQuery today { before := some d } = .ok q) :
    (∃ d', q.beforeOrEqual = some d' ∧ (d'.afterOrEqual r.date = true ↔ dayNumber r.date < dayNumber d)) :=
  KlogV.flags_before today d q r hd hr h

/-- Tag clause: a record whose own summary carries all queried tags is kept whole; otherwise
exactly the entries are kept that carry all queried tags together with the record's tags. -/
theorem filter_tags_exact (u : UTab) (q : List Tag) (r : Record) :
    reduceTags u q r =
      if isSubsetOfTags q (summaryTags u r.summary) then some r
      else if (r.entries.filter (fun e => isSubsetOfTags q (summaryTags u r.summary ++ summaryTags u e.summary))).isEmpty then none
      else some { r with entries := r.entries.filter (fun e => isSubsetOfTags q (summaryTags u r.summary ++ summaryTags u e.summary)) } :=
  KlogV.reduceTags_eq u q r

/-- A tag with value also matches its bare name; names are compared after lower-casing (the
scanner lower-cases them), values literally. -/
theorem value_matches_bare_name (ts : List Tag) (t : Tag) (h : t ∈ ts) :
    tagSetContains ts t = true ∧ tagSetContains ts ⟨t.name, []⟩ = true :=
  KlogV.tagSetContains_bare ts t h

/-- Combining a date clause with a tag clause and an entry-type clause equals intersecting:
applying the clauses one after the other. -/
theorem filter_conjunction (u : UTab) (at_ before after : Option Date) (tags : List Tag) (et : Option EntryType)
    (rs : List Record) :
    filterRecords u { atDate := at_, beforeOrEqual := before, afterOrEqual := after, tags := tags, etype := et } rs =
      filterRecords u { etype := et } (filterRecords u { tags := tags }
        (filterRecords u { atDate := at_, beforeOrEqual := before, afterOrEqual := after } rs)) :=
  KlogV.filter_conjunction u at_ before after tags et rs

/-- Shortcuts: `--this-<period>` / `--last-<period>` select exactly the period of today /
the adjacent previous period (C15). -/
theorem shortcut_query (today : Date) (k : PeriodKind) (prev : Bool) (q : Query)
    (h : flagsToQuery today { shortcut := some (k, prev) } = .ok q) :
    ∃ d p, (if prev then previousDate k today else some today) = some d ∧ periodOf k d = some p ∧
      q.afterOrEqual = some p.since ∧ q.beforeOrEqual = some p.until_ :=
  KlogV.flags_shortcut today k prev q h

/-- `--sort` returns the same records ordered by date (C12.sort_perm / sort_sorted), descending: -/
theorem sort_desc_sorted (rs : List Record) :
    (sortRecords false rs).Pairwise (fun a b => a.date.afterOrEqual b.date = true) :=
  KlogV.sortRecords_sorted_desc rs

end KlogV.C13
