/-
C06 (continued) — the warnings that every evaluation command prints after its output, and every
mutating command after it has written the file (`service.CheckForWarnings`), complete without
crashing; plus what the checkers report.  Property theorems only (helper lemmas:
KlogV/Lemmas/Warnings.lean).
-/
import KlogV.Lemmas.Warnings
namespace KlogV.C06

/-- `CheckForWarnings` never panics on what the parser returned (valid dates), as long as no
record's own total overflows (finding D12) and the clock is at least two days away from both ends
of the calendar (0000-01-03 … 9999-12-29). -/
theorem warnings_never_panic (now : Instant) (dis : Disabled) (rs : List Record)
    (hnv : now.date.valid = true)
    (hnow : (now.date.plusDays (-2)).isSome = true ∧ (now.date.plusDays 2).isSome = true)
    (hv : ∀ r ∈ rs, r.date.valid = true)
    (ht : ∀ r ∈ rs, sumRes (r.entries.map Entry.minutes) ≠ .panic) :
    ∃ ws, checkWarnings now dis rs = .ok ws :=
  KlogV.checkWarnings_no_panic now dis rs hnv hnow hv ht

/-- A warning always names the date of one of the records. -/
theorem warnings_dates_from_records (now : Instant) (dis : Disabled) (rs : List Record) (ws : List (Date × WarnKind))
    (h : checkWarnings now dis rs = .ok ws) : ∀ w ∈ ws, ∃ r ∈ rs, w.1 = r.date :=
  KlogV.checkWarnings_dates now dis rs ws h

/-- A checker that the `no_warnings` setting disables is silent. -/
theorem warnings_disabled_silent (now : Instant) (dis : Disabled) (rs : List Record) (ws : List (Date × WarnKind))
    (h : checkWarnings now dis rs = .ok ws) :
    (dis.unclosed = true → ∀ w ∈ ws, w.2 ≠ .unclosedOpenRange) ∧
    (dis.future = true → ∀ w ∈ ws, w.2 ≠ .futureEntries) ∧
    (dis.overlapping = true → ∀ w ∈ ws, w.2 ≠ .overlappingRanges) ∧
    (dis.moreThan24h = true → ∀ w ∈ ws, w.2 ≠ .moreThan24h) :=
  KlogV.checkWarnings_disabled now dis rs ws h

/-- "Total time exceeds 24 hours" is reported exactly for the dates of records whose own total
exceeds 1440 minutes. -/
theorem warnings_more_than_24h (now : Instant) (dis : Disabled) (rs : List Record) (ws : List (Date × WarnKind))
    (h : checkWarnings now dis rs = .ok ws) (hd : dis.moreThan24h = false) (d : Date) :
    (d, WarnKind.moreThan24h) ∈ ws ↔ ∃ r ∈ rs, r.date = d ∧ r.total > 1440 :=
  KlogV.checkWarnings_moreThan24h now dis rs ws h hd d

/-- "Unclosed open range" is reported exactly for records that have an open range and are dated
neither today nor — unless there is a record for today — yesterday.  (The clock's date must be a
date of the calendar: for the non-date 0000-01-00 "yesterday" 0000-12-31 sorts before "today" and
the statement is false — counterexample found by the proof, see the `example` below.) -/
theorem warnings_unclosed (now : Instant) (dis : Disabled) (rs : List Record) (ws : List (Date × WarnKind))
    (h : checkWarnings now dis rs = .ok ws) (hd : dis.unclosed = false) (hnv : now.date.valid = true)
    (y : Date) (hy : now.date.plusDays (-1) = some y) (d : Date) :
    (d, WarnKind.unclosedOpenRange) ∈ ws ↔
      ∃ r ∈ rs, r.date = d ∧ r.hasOpen = true ∧ r.date.sameDay now.date = false ∧
        (r.date.sameDay y = true → ∃ r' ∈ rs, r'.date.sameDay now.date = true) :=
  KlogV.checkWarnings_unclosed now dis rs ws h hd hnv y hy d

/-- non-vacuity: a record of yesterday with an open range and 25 hours, seen with and without a
record for today -/
example : checkWarnings ⟨⟨2021, 3, 5, true⟩, 12, 0⟩ {} [⟨⟨2021, 3, 4, true⟩, none, [],
      [⟨.openRange ⟨8, 0, 0, true⟩ true 0, [[]]⟩, ⟨.dur ⟨1500, false, 0⟩, [[]]⟩]⟩] =
    .ok [(⟨2021, 3, 4, true⟩, .moreThan24h)] := by decide
example : checkWarnings ⟨⟨2021, 3, 5, true⟩, 12, 0⟩ {} [⟨⟨2021, 3, 4, true⟩, none, [],
      [⟨.openRange ⟨8, 0, 0, true⟩ true 0, [[]]⟩, ⟨.dur ⟨1500, false, 0⟩, [[]]⟩]⟩, ⟨⟨2021, 3, 5, true⟩, none, [], []⟩] =
    .ok [(⟨2021, 3, 4, true⟩, .unclosedOpenRange), (⟨2021, 3, 4, true⟩, .moreThan24h)] := by decide
/-- `warnings_unclosed` needs a valid clock date: -/
example : checkWarnings ⟨⟨0, 1, 0, true⟩, 12, 0⟩ {} [⟨⟨0, 12, 31, true⟩, none, [], [⟨.openRange ⟨8, 0, 0, true⟩ true 0, [[]]⟩]⟩, ⟨⟨0, 1, 0, true⟩, none, [], []⟩] =
    .ok [(⟨0, 12, 31, true⟩, .futureEntries)] := by decide
/-- the clock hypothesis is needed: at the end of the calendar the future-entries checker leaves it -/
example : checkWarnings ⟨⟨9999, 12, 31, true⟩, 12, 0⟩ {} [⟨⟨9999, 12, 31, true⟩, none, [], [⟨.dur ⟨60, false, 0⟩, [[]]⟩]⟩] = .panic := by decide

end KlogV.C06
