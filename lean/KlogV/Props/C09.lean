/-
C09 — Printing a file yields an equivalent canonical file (round trip, fixed point).
Property theorems only (helper lemmas: KlogV/Lemmas/Roundtrip*.lean).
-/
import KlogV.Lemmas.Roundtrip
namespace KlogV.C09

/-- A summary line as the parser can produce it and the serialiser can reproduce it: no line
feed inside, and no carriage return at its end (`NoTrailingCR`: the excluded case is the known
finding D13 — a line whose text ends in CR gets LF appended and is read back as CRLF). -/
abbrev LineOK (l : List Char) : Prop := KlogV.LineOK l

/-- Well-formed records (`KlogV.RecordWF`, defined in Lemmas/Roundtrip.lean): valid date;
should-total in range; record-summary lines non-empty, not starting with a blank character, LineOK;
every entry has well-formed times / an ordered range / a well-formed duration (C16 `Dur.WF`), a
non-empty summary list whose lines are LineOK and whose continuation lines are not blank-only;
at most one open range. -/
abbrev RecordWF (r : Record) : Prop := KlogV.RecordWF r

/-- What printing normalises in a record: a should-total of zero is written like none. -/
abbrev canon (r : Record) : Record := KlogV.Record.canon r

/-- Round trip: the unstyled output of `print` is itself a valid file that parses to the same
records — same dates, should-total values, summaries, entry kinds, values and value notation. -/
theorem roundtrip (rs : List Record) (h : ∀ r ∈ rs, RecordWF r) :
    ∃ bos, parseDoc (encode (printRecords rs)) = .records (rs.map canon) bos :=
  KlogV.print_parse_roundtrip rs h

/-- Fixed point: printing the parsed output again reproduces it unchanged. -/
theorem idempotent (rs : List Record) : printRecords (rs.map canon) = printRecords rs :=
  KlogV.printRecords_canon rs

/-- Everything the parser returns is well-formed, except possibly for a trailing CR in a summary
line (D13); so the round trip applies to every valid file without such lines. -/
theorem parse_output_wf (t : Bytes) (rs : List Record) (bos : List BlockOut)
    (h : parseDoc t = .records rs bos) (hcr : ∀ r ∈ rs, KlogV.NoTrailingCR r) : ∀ r ∈ rs, RecordWF r :=
  KlogV.parseDoc_output_wf t rs bos h hcr

/-- Canonical layout of the printed text: LF only (no CR is ever written by the serialiser
itself), and every printed line of a record is its headline, a summary line, an entry line indented
by exactly four spaces, or a continuation line indented by eight. -/
theorem canonical_layout (r : Record) (h : RecordWF r) :
    ∀ l ∈ recordLines r, l = (recordLines r).headD [] ∨ l ∈ r.summary ∨
      (∃ e ∈ r.entries, l ∈ entryLines e ∧ canonicalIndent.isPrefixOf l = true) :=
  KlogV.recordLines_layout r h

-- FALSE: as an equality of whole `DocOut`s the D13 witness does not hold — the record lists agree
-- (summary `foo` in both), but `DocOut.records` also carries the blocks, and there the line `foo`
-- has ending `.crlf` in the first text and `.lf` in the second (`#eval` of both sides).
-- example : parseDoc (encode (printRecords [⟨⟨2020, 1, 1, true⟩, none, [['f', 'o', 'o', '\r']], []⟩])) =
--     parseDoc (encode (printRecords [⟨⟨2020, 1, 1, true⟩, none, [['f', 'o', 'o']], []⟩])) := by decide
/-- D13 witness (corrected to the record level): a summary line ending in CR does not survive —
the record with summary `foo\r` is read back as the record with summary `foo`, exactly like the
record with summary `foo` itself. -/
example :
    (∃ bos, parseDoc (encode (printRecords [⟨⟨2020, 1, 1, true⟩, none, [['f', 'o', 'o', '\r']], []⟩])) =
      .records [⟨⟨2020, 1, 1, true⟩, none, [['f', 'o', 'o']], []⟩] bos) ∧
    (∃ bos, parseDoc (encode (printRecords [⟨⟨2020, 1, 1, true⟩, none, [['f', 'o', 'o']], []⟩])) =
      .records [⟨⟨2020, 1, 1, true⟩, none, [['f', 'o', 'o']], []⟩] bos) := ⟨⟨_, rfl⟩, ⟨_, rfl⟩⟩

/-- Non-vacuity: a record with a should-total, summary, shifted 12-hour range without spaces
(11 am of the previous day to 0:30 of the next day), signed zero duration, open range with extra
placeholders and a multi-line entry summary: its printed text … -/
example : printRecords [⟨⟨2020, 1, 1, false⟩, some (-30), [['a']],
      [⟨.range ⟨11, 0, -1, false⟩ ⟨0, 30, 1, true⟩ false, [['x'], [' ', 'y']]⟩, ⟨.dur ⟨0, false, -1⟩, [[]]⟩,
       ⟨.openRange ⟨8, 5, 0, true⟩ true 2, [[]]⟩]⟩] =
    "2020/01/01 (-30m!)\na\n    <11:00am-0:30> x\n         y\n    -0m\n    8:05 - ???\n".toList := by decide

/-- … that record satisfies the hypothesis of `roundtrip` … -/
example : RecordWF ⟨⟨2020, 1, 1, false⟩, some (-30), [['a']],
      [⟨.range ⟨11, 0, -1, false⟩ ⟨0, 30, 1, true⟩ false, [['x'], [' ', 'y']]⟩, ⟨.dur ⟨0, false, -1⟩, [[]]⟩,
       ⟨.openRange ⟨8, 5, 0, true⟩ true 2, [[]]⟩]⟩ := by
  refine ⟨by decide, ?_, ?_, ?_, by decide⟩
  · intro s hs; cases hs; decide
  · intro l hl
    simp only [List.mem_singleton] at hl
    subst hl
    exact ⟨by decide, by decide, by decide⟩
  · intro e he
    simp only [List.mem_cons, List.not_mem_nil, or_false] at he
    rcases he with rfl | rfl | rfl
    · refine ⟨by unfold ValWF; decide, by decide, ?_, by decide⟩
      intro l hl
      simp only [List.mem_cons, List.not_mem_nil, or_false] at hl
      rcases hl with rfl | rfl <;> exact ⟨by decide, by decide⟩
    · refine ⟨by unfold ValWF Dur.WF; decide, by decide, ?_, by decide⟩
      intro l hl
      simp only [List.mem_singleton] at hl
      subst hl; exact ⟨by decide, by decide⟩
    · refine ⟨by unfold ValWF; decide, by decide, ?_, by decide⟩
      intro l hl
      simp only [List.mem_singleton] at hl
      subst hl; exact ⟨by decide, by decide⟩

/-- … and its printed text is read back as exactly that record (evaluated). -/
example : ∃ bos, parseDoc (encode (printRecords [⟨⟨2020, 1, 1, false⟩, some (-30), [['a']],
      [⟨.range ⟨11, 0, -1, false⟩ ⟨0, 30, 1, true⟩ false, [['x'], [' ', 'y']]⟩, ⟨.dur ⟨0, false, -1⟩, [[]]⟩,
       ⟨.openRange ⟨8, 5, 0, true⟩ true 2, [[]]⟩]⟩])) = .records [⟨⟨2020, 1, 1, false⟩, some (-30), [['a']],
      [⟨.range ⟨11, 0, -1, false⟩ ⟨0, 30, 1, true⟩ false, [['x'], [' ', 'y']]⟩, ⟨.dur ⟨0, false, -1⟩, [[]]⟩,
       ⟨.openRange ⟨8, 5, 0, true⟩ true 2, [[]]⟩]⟩] bos := ⟨_, rfl⟩

end KlogV.C09
