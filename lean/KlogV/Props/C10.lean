/-
C10 — Syntax errors are reported at the right place and can always be displayed.
Property theorems only (helper lemmas: KlogV/Lemmas/ParserErrors.lean, FirstError.lean, Prettify.lean).
`parseRecord offset lines`: `offset` = number of leading blank lines of the block, `lines` = its
significant lines; an error's `line` is the index into ALL lines of the block.
-/
import KlogV.Lemmas.ParserErrors
import KlogV.Lemmas.FirstError
import KlogV.Lemmas.Prettify
import KlogV.Lemmas.Grammar
import KlogV.Props.C18
namespace KlogV.C10

/-- Every reported error names a significant line of the block (so `LineText()` exists and is
that line; it never indexes past the block — the pre-fix D3 panic). -/
theorem line_in_block (offset : Nat) (lines : List (List Char)) (es : List Err)
    (h : parseRecord offset lines = .errors es) :
    ∀ e ∈ es, offset ≤ e.line ∧ e.line < offset + lines.length :=
  KlogV.parseRecord_line_in_block offset lines es h

/-- Column and length stay within the quoted line: at most one character past its end, and
never negative (so the caret rendering `strings.Repeat` cannot panic). -/
theorem span_in_line (offset : Nat) (lines : List (List Char)) (es : List Err)
    (h : parseRecord offset lines = .errors es) :
    ∀ e ∈ es, 0 ≤ e.pos ∧ 0 ≤ e.len ∧ e.pos + e.len ≤ ((lines[e.line - offset]?).getD []).length + 1 :=
  KlogV.parseRecord_span_in_line offset lines es h

/-- Errors come in strictly ascending line order within a block (at most one error per line). -/
theorem ascending (offset : Nat) (lines : List (List Char)) (es : List Err)
    (h : parseRecord offset lines = .errors es) :
    (es.map (·.line)).Pairwise (· < ·) :=
  KlogV.parseRecord_ascending offset lines es h

/-- A block is either accepted, or rejected with at least one error (never "rejected silently"). -/
theorem errors_nonempty (offset : Nat) (lines : List (List Char)) (es : List Err) (hl : lines ≠ [])
    (h : parseRecord offset lines = .errors es) : es ≠ [] :=
  KlogV.parseRecord_errors_nonempty offset lines es hl h

/-- Global line numbers (1-based) of the errors of a whole document are strictly ascending, and
each quoted line text exists. -/
theorem doc_errors_ascending (t : Bytes) (es : List GErr) (h : parseDoc t = .errors es) :
    (es.map (·.lineNumber)).Pairwise (· < ·) ∧ ∀ e ∈ es, e.lineText.isSome = true ∧ 1 ≤ e.lineNumber ∧
      e.lineNumber ≤ (splitLines t).length :=
  KlogV.parseDoc_errors_ascending t es h

/-! ### The first error is on the first line at which the text stops conforming -/

/-- line (index into all lines of the block) of the first reported error -/
abbrev firstErrorLine (o : ParseOut) : Option Nat := KlogV.firstErrorLine o

/-- Everything in front of the line of the first error is, on its own, accepted. -/
theorem first_error_prefix_accepted (offset k : Nat) (lines : List (List Char))
    (h : firstErrorLine (parseRecord offset lines) = some (offset + k)) (hk : 0 < k) :
    ∃ r, parseRecord offset (lines.take k) = .record r :=
  KlogV.first_error_prefix_accepted offset k lines h hk

/-- Nothing that starts with the lines up to and including the line of the first error is
accepted, whatever follows: the first error stays on that line.  (Before fix D19 a second open
range followed by a malformed continuation line was only reported on the continuation line.) -/
theorem first_error_not_extensible (offset k : Nat) (lines : List (List Char))
    (h : firstErrorLine (parseRecord offset lines) = some (offset + k)) (rest : List (List Char)) :
    match parseRecord offset (lines.take (k + 1) ++ rest) with
    | .record _ => False
    | .errors es => firstErrorLine (.errors es) = some (offset + k)
    | .panic => True :=
  KlogV.first_error_not_extensible offset k lines h rest

/-- The same in terms of the grammar of Specification.md (C01): the lines in front of the first
error conform, and no conforming block starts with the lines up to and including it — the first
error is on the first line at which the text stops conforming.  In particular, for a block with
one faulty line the first error is on that line. -/
theorem first_error_is_first_nonconforming (offset k : Nat) (lines : List (List Char))
    (h : firstErrorLine (parseRecord offset lines) = some (offset + k)) :
    (0 < k → ∃ r, Spec.RecordLines (lines.take k) r) ∧
    (∀ rest, (∀ l ∈ lines.take (k + 1) ++ rest, ¬ KlogV.HasLongDigitRun l) →
      ¬ ∃ r, Spec.RecordLines (lines.take (k + 1) ++ rest) r) := by
  refine ⟨fun hk => ?_, fun rest hn hr => ?_⟩
  · obtain ⟨r, hr⟩ := first_error_prefix_accepted offset k lines h hk
    exact ⟨r, KlogV.parseRecord_sound offset _ r hr⟩
  · obtain ⟨r, hr⟩ := hr
    have hc := KlogV.parseRecord_complete offset _ r hr hn
    have := first_error_not_extensible offset k lines h rest
    rw [hc] at this
    exact this

/-- Document level: the first error of a text is the first error of its first rejected block;
all blocks in front of it are accepted. -/
theorem doc_first_error (t : Bytes) (e : GErr) (es : List GErr) (h : parseDoc t = .errors (e :: es)) :
    ∃ (pre post : List BlockOut) (bo : BlockOut) (e0 : Err) (es0 : List Err),
      blockOuts (blocksOf t) = pre ++ bo :: post ∧ (∀ b ∈ pre, ∃ r, b.out = .record r) ∧
      bo.out = .errors (e0 :: es0) ∧ e.lineNumber = bo.first + e0.line + 1 ∧ e.pos = e0.pos ∧ e.len = e0.len ∧ e.code = e0.code :=
  KlogV.parseDoc_first_error t e es h

/-! ### The terminal rendering shows these same positions and never fails -/

/-- Rendering the errors of any text never fails (the quoted line exists, `strings.Repeat` gets
no negative count), under any styler and origin. -/
theorem pretty_never_fails (t : Bytes) (es : List GErr) (st : Styler) (origin : List Char)
    (h : parseDoc t = .errors es) : (prettyErrors st origin es).isSome = true :=
  KlogV.prettyErrors_isSome t es st origin h

/-- The header of an error block, uncoloured. -/
def header (origin : List Char) (e : GErr) : List Char :=
  "[SYNTAX ERROR] in line ".toList ++ natDigits e.lineNumber ++ (if origin.isEmpty then [] else " of file ".toList ++ origin)

/-- What is on the screen for one error, line by line (uncoloured): an empty line, the header
with the 1-based line number, the quoted line (tabs as blanks) indented by four blanks, under it
exactly `pos` blanks and `len` carets with the same indentation — so the carets start in column
`pos + 1` of the quoted line, the column `klog json` reports —, then the message lines, each
indented, and the final line break. -/
theorem pretty_block_lines (origin : List Char) (e : GErr) (text : Bytes) (h : e.lineText = some text)
    (hp : 0 ≤ e.pos) (hl : 0 ≤ e.len) (hn : '\n' ∉ decodeGo text) (ho : '\n' ∉ origin) :
    ∃ (b : List Char) (msg : List (List Char)),
      prettyError noColour origin e = some b ∧
      splitOnChar '\n' b = [[], header origin e, INDENT ++ tabsToSpaces (decodeGo text),
        INDENT ++ List.replicate e.pos.toNat ' ' ++ List.replicate e.len.toNat '^'] ++ msg ++ [[]] ∧
      msg ≠ [] ∧ (∀ m ∈ msg, INDENT <+: m) :=
  KlogV.prettyError_lines origin e text h hp hl hn ho

/-- The message is title and details, word by word: re-flowing only replaces blanks by line
breaks and puts the prefix in front of every line — provided the SECOND word of the paragraph fits
on a line.
FALSE without that hypothesis (found by the proof attempt; the Go `Reflower` behaves the same, the
correspondence check covers it): the decision to break looks at the NEXT word, so a too long second
word closes the still empty first line, and the first word then finds no prefix for line 2:
`reflowWords 3 ["> "] ["a", "bcde"] = ["", "a bcde"]` (example below).  For the texts of the parser
errors the hypothesis holds — proved by evaluation over the regenerated table of all titles and
details (`errMessage_ok` in Lemmas/Prettify1, used by `pretty_block_lines`), so the rendering of
syntax errors is not affected; it stops checking if a text with a second word of more than 80 bytes
is ever introduced. -/
theorem reflow_words (maxLen : Nat) (pfx para : List Char) (hp : pfx ≠ []) (hn : '\n' ∉ para)
    (hw : ∀ w, (splitOnChar ' ' para)[1]? = some w → byteLen w ≤ maxLen) :
    let ls := reflowWords maxLen [pfx] (splitOnChar ' ' para) [] [] []
    (∀ l ∈ ls, pfx <+: l) ∧ (ls.map (fun l => splitOnChar ' ' (l.drop pfx.length))).flatten = splitOnChar ' ' para :=
  KlogV.reflowWords_words maxLen pfx para hp hn hw

example : reflowWords 3 ["> ".toList] (splitOnChar ' ' "a bcde".toList) [] [] [] = [[], "a bcde".toList] := by decide

/-- Colour never changes what is shown (C18 for the error rendering): with the sequences of any
styler removed, the coloured rendering is the uncoloured one. -/
theorem pretty_strip (st : Styler) (hs : C18.SeqStyler st) (origin : List Char) (es : List GErr) :
    (prettyErrors st origin es).map strip = (prettyErrors noColour origin es).map strip :=
  KlogV.prettyErrors_strip st hs origin es

/-- Regenerated on every run: the sequences every theme emits for a colour on a background
(the `[SYNTAX ERROR]` badge) are complete SGR sequences as well. -/
theorem theme_bg_seqs_complete : ∀ r ∈ Gen.themeBgTable, KlogV.isSeqsB r.2.2.2.toList = true := by
  decide +kernel

/-- Non-vacuity: the former D19 witness, first error on the line of the second open range. -/
example : firstErrorLine (parseRecord 0 ["2020-01-01".toList, "    8:00-?".toList, "    9:00-?".toList, "        \u00a0".toList])
    = some 2 := by decide

/-- Non-vacuity / the former D3 witness: a malformed continuation line on the last line of the
file is reported on that line (3), not one past it. -/
example : parseRecord 0 ["2020-01-01".toList, "    1h".toList, ("        " ++ " ").toList]
    = .errors [⟨2, 0, 9, .malformedSummary⟩] := by decide

end KlogV.C10
