/-
C10 — Syntax errors are reported at the right place and can always be displayed.
Property theorems only (helper lemmas: KlogV/Lemmas/ParserErrors.lean).
`parseRecord offset lines`: `offset` = number of leading blank lines of the block, `lines` = its
significant lines; an error's `line` is the index into ALL lines of the block.
-/
import KlogV.Lemmas.ParserErrors
namespace KlogV.C10

/-- Every reported error names a significant line of the block (so `LineText()` exists and is
that line; it never indexes past the block — the pre-fix D3 panic). -/
theorem line_in_block (offset : Nat) (lines : List (List Char)) (es : List Err)
    (h : parseRecord offset lines = .errors es) :
    ∀ e ∈ es, offset ≤ e.line ∧ e.line < offset + lines.length :=
  KlogV.parseRecord_line_in_block offset lines es h

/-- Column and length stay within the quoted line: at most one character past its end, and
never negative (so the caret rendering `strings.Repeat` cannot panic). -/
theorem span_in_line (offset : Nat) (lines : List (List Char)) (es : List Err)
    (h : parseRecord offset lines = .errors es) :
    ∀ e ∈ es, 0 ≤ e.pos ∧ 0 ≤ e.len ∧ e.pos + e.len ≤ ((lines[e.line - offset]?).getD []).length + 1 :=
  KlogV.parseRecord_span_in_line offset lines es h

/-- Errors come in strictly ascending line order within a block (at most one error per line). -/
theorem ascending (offset : Nat) (lines : List (List Char)) (es : List Err)
    (h : parseRecord offset lines = .errors es) :
    (es.map (·.line)).Pairwise (· < ·) :=
  KlogV.parseRecord_ascending offset lines es h

/-- A block is either accepted, or rejected with at least one error (never "rejected silently"). -/
theorem errors_nonempty (offset : Nat) (lines : List (List Char)) (es : List Err) (hl : lines ≠ [])
    (h : parseRecord offset lines = .errors es) : es ≠ [] :=
  KlogV.parseRecord_errors_nonempty offset lines es hl h

/-- Global line numbers (1-based) of the errors of a whole document are strictly ascending, and
each quoted line text exists. -/
theorem doc_errors_ascending (t : Bytes) (es : List GErr) (h : parseDoc t = .errors es) :
    (es.map (·.lineNumber)).Pairwise (· < ·) ∧ ∀ e ∈ es, e.lineText.isSome = true ∧ 1 ≤ e.lineNumber ∧
      e.lineNumber ≤ (splitLines t).length :=
  KlogV.parseDoc_errors_ascending t es h

/-- Non-vacuity / the former D3 witness: a malformed continuation line on the last line of the
file is reported on that line (3), not one past it. -/
example : parseRecord 0 ["2020-01-01".toList, "    1h".toList, ("        " ++ " ").toList]
    = .errors [⟨2, 0, 9, .malformedSummary⟩] := by decide

end KlogV.C10
