/-
FROM THE REGULAR EXPRESSION IN THE GO SOURCE TO THE PARSED VALUE.
`newTimeFromString_eq` / `newDurationFromString_eq` (Props/GoSrcParse.lean) assume the contracts `TimeFind` / `DurFind` of
`FindStringSubmatch` spelled out for the two patterns.  Here those contracts are DERIVED from one generic statement about
package regexp — `SubmatchSpec`: for a pattern anchored at both ends, `FindStringSubmatch(s)` is `nil` when `s` does not
match, and otherwise `s` followed by the text of each capture group of a match, i.e. what stands between `openSym i` and
`closeSym i` in a word of the MARKED language of the pattern over `s` (KlogV/Regex/Basic.lean) — for ANY pattern whose marked language is
the expected one — and the syntax trees that `klogv extract` produced from the patterns in the Go source on this run contain
such patterns (`time_pattern_in_source`, `duration_pattern_in_source`: the kernel-checked, name-independent ties of §0.9) —
through the marked-language theorems `Regexes.time_marked`, `time_groups`, `duration_marked`, `duration_groups`.
What remains assumed about Go's regexp package is `SubmatchSpec` itself.
Property theorems only (helper lemmas: KlogV/Lemmas/GoRx*.lean).
-/
import KlogV.Lemmas.GoRx
import KlogV.Props.Rx.Values
namespace KlogV.GoTie
open KlogV.Go KlogV.Rx

/-- `re` has the marked language of `expect`: same words, capture-group boundaries included -/
def SameMarked (re expect : Re) : Prop := ∀ env m, Matches env (mark re) m ↔ Matches env (mark expect) m

/-- the Go source contains patterns with the marked languages of the expected time and duration patterns, anchored at both
ends and fully inside the translated fragment (the name-independent ties of §0.9, decided in the kernel) -/
theorem time_pattern_in_source :
    ∃ g ∈ Gen.allRegexes, g.2.2.1 = (true, true) ∧ g.2.2.2 = [] ∧ SameMarked g.2.1 Expect.time :=
  KlogV.Regexes.tie_sound Regexes.time
theorem duration_pattern_in_source :
    ∃ g ∈ Gen.allRegexes, g.2.2.1 = (true, true) ∧ g.2.2.2 = [] ∧ SameMarked g.2.1 Expect.duration :=
  KlogV.Regexes.tie_sound Regexes.duration

theorem timeFind_of_spec (env : Env) (re : Re) (hre : SameMarked re Expect.time) (find : Str → List Str)
    (h : SubmatchSpec env re 5 find) : TimeFind find :=
  GoL.timeFind_of_spec env re hre find h

theorem durFind_of_spec (env : Env) (re : Re) (hre : SameMarked re Expect.duration) (find : Str → List Str)
    (h : SubmatchSpec env re 5 find) : DurFind find :=
  GoL.durFind_of_spec env re hre find h

/-- Go source → value: whatever implements `FindStringSubmatch`, as package regexp documents it, for a pattern with the
marked language of the time pattern — such as the one in the source (`time_pattern_in_source`) — `NewTimeFromString` of the
source is the model's `Time.parse` -/
theorem newTimeFromString_of_regexp (env : Env) (re : Re) (hre : SameMarked re Expect.time) (find : Str → List Str)
    (h : SubmatchSpec env re 5 find) (s : List Char) :
    (GoSrc.NewTimeFromString find s).res = (optRes (Time.parse s)).map Time.toGo :=
  newTimeFromString_eq find (timeFind_of_spec env re hre find h) s

theorem newDurationFromString_of_regexp (env : Env) (re : Re) (hre : SameMarked re Expect.duration) (find : Str → List Str)
    (h : SubmatchSpec env re 5 find) (s : List Char) :
    (GoSrc.NewDurationFromString find s).res = (Dur.parse s).map Dur.toGo :=
  newDurationFromString_eq find (durFind_of_spec env re hre find h) s

end KlogV.GoTie
