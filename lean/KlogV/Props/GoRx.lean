/-
FROM THE REGULAR EXPRESSION IN THE GO SOURCE TO THE PARSED VALUE.
`newTimeFromString_eq` / `newDurationFromString_eq` (Props/GoSrcParse.lean) assume the contracts `TimeFind` / `DurFind` of
`FindStringSubmatch` spelled out for the two patterns.  Here those contracts are DERIVED from one generic statement about
package regexp — `SubmatchSpec`: for a pattern anchored at both ends, `FindStringSubmatch(s)` is `nil` when `s` does not
match, and otherwise `s` followed by the text of each capture group of a match, i.e. what stands between `openSym i` and
`closeSym i` in a word of the MARKED language of the pattern over `s` (KlogV/Regex/Basic.lean) — instantiated with the
syntax trees that `klogv extract` produced from the patterns in the Go source on this run (`Gen.rx_klog_timePattern`,
`Gen.rx_klog_durationPattern`), through the kernel-checked equivalence with the expected patterns (§0.9) and the
marked-language theorems `Regexes.time_marked`, `time_groups`, `duration_marked`, `duration_groups`.
What remains assumed about Go's regexp package is `SubmatchSpec` itself.
Property theorems only (helper lemmas: KlogV/Lemmas/GoRx*.lean).
-/
import KlogV.Lemmas.GoRx
namespace KlogV.GoTie
open KlogV.Go KlogV.Rx

/-- the patterns of the code denote the expected marked languages (decided in the kernel by the verified checker) -/
theorem timePattern_tied : equivCheck 2000 (mark Gen.rx_klog_timePattern) (mark Expect.time) = true := by decide +kernel
theorem durationPattern_tied : equivCheck 2000 (mark Gen.rx_klog_durationPattern) (mark Expect.duration) = true := by decide +kernel

theorem timeFind_of_spec (env : Env) (find : Str → List Str) (h : SubmatchSpec env Gen.rx_klog_timePattern 5 find) :
    TimeFind find :=
  GoL.timeFind_of_spec env find h

theorem durFind_of_spec (env : Env) (find : Str → List Str) (h : SubmatchSpec env Gen.rx_klog_durationPattern 5 find) :
    DurFind find :=
  GoL.durFind_of_spec env find h

/-- Go source → value: whatever implements `FindStringSubmatch` for the time pattern OF THE SOURCE as package regexp
documents it, `NewTimeFromString` of the source is the model's `Time.parse` -/
theorem newTimeFromString_of_regexp (env : Env) (find : Str → List Str)
    (h : SubmatchSpec env Gen.rx_klog_timePattern 5 find) (s : List Char) :
    (GoSrc.NewTimeFromString find s).res = (optRes (Time.parse s)).map Time.toGo :=
  newTimeFromString_eq find (timeFind_of_spec env find h) s

theorem newDurationFromString_of_regexp (env : Env) (find : Str → List Str)
    (h : SubmatchSpec env Gen.rx_klog_durationPattern 5 find) (s : List Char) :
    (GoSrc.NewDurationFromString find s).res = (Dur.parse s).map Dur.toGo :=
  newDurationFromString_eq find (durFind_of_spec env find h) s

end KlogV.GoTie
