/-
C01 — The parser accepts exactly the spec-conforming files and extracts the denoted data.
Property theorems only (helper lemmas: KlogV/Lemmas/Grammar*.lean).
`Spec.RecordLines ls r` (KlogV/Spec/Grammar.lean) is the declarative grammar of Specification.md
part I: the lines `ls` of a record denote the record `r`.  The document layer (records separated
by blank lines, any line endings, leading/trailing blank lines) is the block structure of C08.
-/
import KlogV.Lemmas.Grammar
import KlogV.Props.Tables
import KlogV.Props.Rx.Values
import KlogV.Props.Rx.Summary
import KlogV.Props.Rx.Model
namespace KlogV.C01

abbrev HasLongDigitRun (l : List Char) : Prop := KlogV.HasLongDigitRun l

/-- Completeness: every block of lines that conforms to the grammar is accepted, and the record
returned carries exactly the denoted date, should-total, summary lines, entry kinds, times
(shifts, 24:00 equivalences, 12-hour notation), signed durations and their notation, in order.
(Numbers with 18 or more digits are the known findings D1/D2: the parser panics.) -/
theorem record_complete (offset : Nat) (ls : List (List Char)) (r : Record) (h : Spec.RecordLines ls r)
    (hn : ∀ l ∈ ls, ¬ HasLongDigitRun l) : parseRecord offset ls = .record r :=
  KlogV.parseRecord_complete offset ls r h hn

/-- Soundness: whatever the parser accepts conforms to the grammar and denotes the record
returned.  Hence every block that breaks a MUST rule — i.e. is outside the grammar — is rejected. -/
theorem record_sound (offset : Nat) (ls : List (List Char)) (r : Record) (h : parseRecord offset ls = .record r) :
    Spec.RecordLines ls r :=
  KlogV.parseRecord_sound offset ls r h

theorem record_rejected (offset : Nat) (ls : List (List Char)) (hl : ls ≠ []) (hn : ∀ l ∈ ls, ¬ HasLongDigitRun l)
    (h : ¬ ∃ r, Spec.RecordLines ls r) : ∃ es, parseRecord offset ls = .errors es ∧ es ≠ [] :=
  KlogV.parseRecord_rejected offset ls hl hn h

/-- The grammar is unambiguous: a block denotes at most one record. -/
theorem grammar_functional (ls : List (List Char)) (r r' : Record) (h : Spec.RecordLines ls r) (h' : Spec.RecordLines ls r')
    (hn : ∀ l ∈ ls, ¬ HasLongDigitRun l) : r = r' := by
  have a := record_complete 0 ls r h hn
  have b := record_complete 0 ls r' h' hn
  rw [a] at b; injection b

/-- the characters of the significant lines of a block (bytes decoded as any Go program sees them) -/
abbrev blockChars (b : List Line) : List (List Char) := KlogV.blockChars b

/-- A text denotes records `rs`: its blocks (C08: maximal groups of non-blank lines, separated by
blank lines) conform to the grammar one by one, in file order. -/
abbrev DocOf (t : Bytes) (rs : List Record) : Prop := KlogV.DocOf t rs

theorem doc_complete (t : Bytes) (rs : List Record) (h : DocOf t rs)
    (hn : ∀ b ∈ blocksOf t, ∀ l ∈ blockChars b, ¬ HasLongDigitRun l) :
    ∃ bos, parseDoc t = .records rs bos :=
  KlogV.parseDoc_complete t rs h hn

theorem doc_sound (t : Bytes) (rs : List Record) (bos : List BlockOut) (h : parseDoc t = .records rs bos) : DocOf t rs :=
  KlogV.parseDoc_sound t rs bos h

/-- A text one of whose blocks is outside the grammar is rejected with at least one error and
no records. -/
theorem doc_rejected (t : Bytes) (hn : ∀ b ∈ blocksOf t, ∀ l ∈ blockChars b, ¬ HasLongDigitRun l)
    (h : ∃ b ∈ blocksOf t, ¬ ∃ r, Spec.RecordLines (blockChars b) r) :
    ∃ es, parseDoc t = .errors es ∧ es ≠ [] :=
  KlogV.parseDoc_rejected t hn h

/-! Non-vacuity and the violation classes the property lists (each is outside the grammar, hence
rejected; here by evaluation). -/

example : parseRecord 0 ["2020-01-01 (-30m!)".toList, "Summary #tag".toList, "  <23:00 - 24:00 foo".toList, "    more".toList,
      "  +0m".toList, "  08:15am-?? ".toList] =
    .record ⟨⟨2020, 1, 1, true⟩, some (-30), ["Summary #tag".toList],
      [⟨.range ⟨23, 0, -1, true⟩ ⟨0, 0, 1, true⟩ true, ["foo".toList, "more".toList]⟩, ⟨.dur ⟨0, true, 1⟩, [[]]⟩,
       ⟨.openRange ⟨8, 15, 0, false⟩ false 1, [[]]⟩]⟩ := by decide

def rejected (ls : List String) : Bool := match parseRecord 0 (ls.map String.toList) with | .errors (_ :: _) => true | _ => false

example : rejected ["2020-02-30"] ∧ rejected ["2020-1-01"] ∧ rejected ["2020-01/01"] ∧ rejected ["2020-01-01 foo"] ∧
    rejected ["2020-01-01", " 1h"] ∧ rejected ["2020-01-01", "    1h", "  2h"] ∧ rejected ["2020-01-01", "    1h", "\t2h"] ∧
    rejected ["2020-01-01", "    25:00 - 26:00"] ∧ rejected ["2020-01-01", "    1h60m"] ∧ rejected ["2020-01-01", "    8:00 -"] ∧
    rejected ["2020-01-01", "    9:00 - 8:00"] ∧ rejected ["2020-01-01", "    8:00 - ?>"] ∧
    rejected ["2020-01-01", "    8:00 - ?", "    9:00 - ?"] ∧ rejected ["2020-01-01", " summary"] ∧ rejected ["foo bar"] ∧
    rejected ["    1h"] ∧ rejected ["2020-01-01", "    24:00> - 25:00"] ∧ rejected ["2020-01-01 (8h)"] := by decide

/-- D4 (known finding): a line of blank characters one of which is a no-break space is a blank
line by the specification's glossary, but the reference parser takes it for text. -/
example : (match parseDoc ("2020-01-01\n".toUTF8.toList ++ [0xC2, 0xA0, 10] ++ "2020-01-02\n".toUTF8.toList) with
    | .errors (_ :: _) => true | _ => false) = true := by decide +kernel

end KlogV.C01
