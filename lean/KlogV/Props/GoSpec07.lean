/-
END TO END, C07: WHAT THE GO SOURCE'S `splitIntoChunks` RETURNS MERGES TO THE SERIAL BLOCKS.
`splitIntoChunks_eq` (Props/GoPar.lean) composed with the C07 theorems about the model.  Property theorems only.
-/
import KlogV.Props.GoPar
import KlogV.Props.C07
namespace KlogV.GoTie
open KlogV.Go

/-- End to end, about the Go source (Gen/GoPar.lean is the translation of `splitIntoChunks` made on this run): whatever the
translated function returns for a text below 2⁵³ bytes and `1 ≤ n < 2⁵³` workers are `n` chunks that concatenate to the
text, respect CRLF, and whose per-batch results merge to the serial parser's blocks. -/
theorem go_chunks_merge (t : Bytes) (n fuel : Nat) (hn : 1 ≤ n) (hn2 : n < 9007199254740992)
    (hlen : t.length < 9007199254740992) (hf : t.length < fuel) :
    ∃ cs, GoPar.splitIntoChunks fuel t (n : Int) = .ok cs ∧ cs.length = n ∧ cs.flatten = t ∧ GoodCuts cs ∧
      parallelBlocksOfChunks cs = blocksOf t := by
  refine ⟨splitIntoChunks t n, splitIntoChunks_eq t n fuel hn hn2 hlen hf, C07.chunks_length t n, C07.chunks_join t n hn,
    C07.chunks_good_cuts t n, ?_⟩
  rw [C07.merge_eq_serial _ (C07.chunks_good_cuts t n), C07.chunks_join t n hn]


end KlogV.GoTie
