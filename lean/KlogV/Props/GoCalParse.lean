/-
THE FOUR PERIOD-PATTERN READERS OF THE GO SOURCE, TRANSLATED, ARE THE MODEL'S (continuation of KlogV/Props/GoCal.lean).
Property theorems only (helper lemmas: KlogV/Lemmas/GoCalC*.lean).
-/
import KlogV.Lemmas.GoCalC
namespace KlogV.GoTie
open KlogV.Go

/-! ## … and the four pattern readers (`MatchString` of the anchored pattern is a parameter; its contract is the shape) -/

theorem newYearFromString_eq (mt : Str → Bool) (hm : ∀ s, mt s = yearShape s) (s : List Char) :
    (GoCal.NewYearFromString mt s).res = (optRes (yearFromString s)).map (fun d => (⟨d.toGo⟩ : GoCal.Year)) :=
  GoL.newYearFromString_eq mt hm s

theorem newMonthFromString_eq (mt : Str → Bool) (hm : ∀ s, mt s = monthShape s) (s : List Char) :
    (GoCal.NewMonthFromString mt s).res = (optRes (monthFromString s)).map (fun d => (⟨d.toGo⟩ : GoCal.Month)) :=
  GoL.newMonthFromString_eq mt hm s

theorem newQuarterFromString_eq (mt : Str → Bool) (hm : ∀ s, mt s = quarterShape s) (s : List Char) :
    (GoCal.NewQuarterFromString mt s).res = (optRes (quarterFromString s)).map (fun d => (⟨d.toGo⟩ : GoCal.Quarter)) :=
  GoL.newQuarterFromString_eq mt hm s

/-- `NewWeekFromString`, including the refusal of weeks that do not exist (no roll-over) -/
theorem newWeekFromString_eq (mt : Str → Bool) (hm : ∀ s, mt s = weekShape s) (s : List Char) :
    (GoCal.NewWeekFromString mt s).res = (weekFromString s).map (fun d => (⟨d.toGo⟩ : GoCal.Week)) :=
  GoL.newWeekFromString_eq mt hm s

/-- the model's `periodFromPattern` is these four readers tried in the order of `NewPeriodFromPatternString` -/
theorem periodFromPattern_eq (s : List Char) :
    periodFromPattern s =
      match yearFromString s with
      | some d => .ok (yearPeriod d)
      | none => match monthFromString s with
        | some d => .ok (monthPeriod d)
        | none => match quarterFromString s with
          | some d => .ok (quarterPeriod d)
          | none => match weekFromString s with
            | .ok d => (match weekPeriod d with | some p => .ok p | none => .panic)
            | .err => .err
            | .panic => .panic :=
  GoL.periodFromPattern_eq s

end KlogV.GoTie
