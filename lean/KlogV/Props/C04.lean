/-
C04 — Mutating commands have exactly their intended effect over any command history.
Property theorems only (helper lemmas: KlogV/Lemmas/Refine*.lean).
The abstract semantics is KlogV/Spec/AbstractCommands.lean (records only, no text).
Status: the refinement is proved for `create` and `track` (text-level edit ⇒ abstract effect on the
re-parsed records) and for the pause loop's arithmetic; for `start`/`stop`/`switch` it is stated
and — where not proved — covered by the correspondence/abstract-oracle run on the real code only
(see the list of obligations and DESIGN.md).
The statements of `create_refines`, `track_refines` and `history_refines` as first written were
FALSE for the model (counterexamples in the comments below); they are proved with the extra
hypotheses spelled out there.  `track_second_open_range_rejected` is proved for files that do not
end in a lone carriage return (`…_partial`).
-/
import KlogV.Lemmas.Refine
import KlogV.Props.C04b
import KlogV.Spec.Grammar
import KlogV.Props.Rx.Reconciler
import KlogV.Props.Rx.Model
namespace KlogV.C04

/-- The pause loop: for EVERY sequence of clock readings — including backwards jumps and
multi-minute gaps — the minutes captured are the largest reading so far, never negative. -/
theorem pause_invariant (ticks : List Int) : Spec.captured ticks = (ticks.foldl max 0) :=
  KlogV.captured_eq_max ticks

theorem pause_monotone (ticks : List Int) (t : Int) : Spec.captured ticks ≤ Spec.captured (ticks ++ [t]) :=
  KlogV.captured_mono ticks t

/-- The loop of `klog pause` extends the pause by exactly the increments of `captured`: running
it over the readings is running the single-step reconcile for each positive increment, and the
increments add up to `captured`. -/
theorem pause_loop_increments (ticks : List Int) :
    (KlogV.pauseIncrements ticks 0).sum = Spec.captured ticks ∧ ∀ i ∈ KlogV.pauseIncrements ticks 0, 0 < i :=
  KlogV.pauseIncrements_spec ticks

theorem pause_loop_is_fold (today yesterday : Date) (ticks : List Int) (file : Bytes) :
    pauseLoop today yesterday ticks 0 file = KlogV.pauseFold today yesterday (KlogV.pauseIncrements ticks 0) file :=
  KlogV.pauseLoop_eq_fold today yesterday ticks file

/-- The position of a new record is the chronological one for a date-sorted file: sorted in,
sorted out, and the new record comes after records of the same date. -/
theorem insertPos_sorted (rs : List Record) (d : Date) (r' : Record) (hd : Spec.SameDate r'.date d)
    (hs : rs.Pairwise (fun a b => Spec.dateLe a.date b.date = true)) :
    (rs.take (Spec.insertPos rs d) ++ [r'] ++ rs.drop (Spec.insertPos rs d)).Pairwise (fun a b => Spec.dateLe a.date b.date = true) ∧
    (∀ r ∈ rs.take (Spec.insertPos rs d), Spec.dateLe r.date d = true) ∧
    (∀ r ∈ rs.drop (Spec.insertPos rs d), Spec.dateLe r.date d = false) :=
  KlogV.insertPos_sorted rs d r' hd hs

/-- bytes of a summary / entry line as typed on the command line: no line feed inside, no
carriage return at the end (D13) (definition: KlogV/Lemmas/Refine1.lean) -/
abbrev CleanLine (l : Bytes) : Prop := KlogV.CleanLine l

/-
-- FALSE: (1) a file that ends in a carriage return without line feed: the reconciler completes the
-- last line with the file's line ending, the CR becomes part of a CRLF ending and the text of that
-- line changes.  file = "2000-01-01\nfoo\r", `create --date 2000-01-02`: succeeds with
-- "2000-01-01\nfoo\r\n\n2000-01-02\n"; the old record's summary was ["foo\r"], it is re-read as ["foo"]
-- — the old record is NOT untouched.  (2) a date that is not a calendar date (only reachable through
-- `DateSel.explicit` / an invalid clock reading in the model): `create` with ⟨12345, 1, 1⟩ on the empty
-- file succeeds with "2345-01-01\n" (digits cut off), ⟨2000, 101, 1⟩ yields "2000-01-01\n": the new
-- record is not dated as requested.
theorem create_refines (u : UTab) (cfg : Config) (now : Instant) (sel : DateSel) (should : Option Int)
    (summary : Option (List Bytes)) (file file' : Bytes) (rs : List Record) (bos : List BlockOut) (d : Date)
    (hp : parseDoc file = .records rs bos) (hd : atDate sel now.date = some d)
    (hclean : ∀ l ∈ summary.getD [], CleanLine l ∧ okRecordSummaryLine (decodeGo l) = true)
    (h : runCmd u cfg now (.create sel should summary) file = .ok file') :
    ∃ rs' bos', parseDoc file' = .records rs' bos' ∧
      Spec.Create rs d (match should with | some s => some s | none => cfg.should) ((summary.getD []).map decodeGo) rs'
-/

/-- `create` (corrected: `hv` the date is a calendar date, `hcr` the file does not end in a lone
carriage return): after a successful run, re-reading the file yields exactly the old records plus
ONE new record — dated as requested, with the given (or configured) should-total and the given
summary, no entries — at the abstract insert position; every other record is untouched and in its
place. -/
theorem create_refines (u : UTab) (cfg : Config) (now : Instant) (sel : DateSel) (should : Option Int)
    (summary : Option (List Bytes)) (file file' : Bytes) (rs : List Record) (bos : List BlockOut) (d : Date)
    (hp : parseDoc file = .records rs bos) (hd : atDate sel now.date = some d)
    (hclean : ∀ l ∈ summary.getD [], CleanLine l ∧ okRecordSummaryLine (decodeGo l) = true)
    (hv : d.valid = true) (hcr : file.getLast? ≠ some 13)
    (h : runCmd u cfg now (.create sel should summary) file = .ok file') :
    ∃ rs' bos', parseDoc file' = .records rs' bos' ∧
      Spec.Create rs d (match should with | some s => some s | none => cfg.should) ((summary.getD []).map decodeGo) rs' := by
  cases should <;>
    exact KlogV.create_refines u cfg now sel _ summary file file' rs bos d hp hd hclean hv hcr _ rfl h

/-- the entry that the text of `klog track` denotes: what is read from its lines when they are
written as the only entry under a headline, with indentation `ind` (by C01 this is what the
grammar of the specification assigns to these lines) (definition: KlogV/Lemmas/Refine1.lean) -/
abbrev Denotes (ind : List Char) (entry : List Bytes) (e : Entry) : Prop := KlogV.Denotes ind entry e

/-
-- FALSE: (1) a file that ends in a carriage return without line feed (see `create_refines`):
-- file = "2000-01-01\n    1h foo\r", `track 2h` (today = 2000-01-01) succeeds with
-- "2000-01-01\n    1h foo\r\n    2h\n"; the first entry's summary was ["foo\r"] and is re-read as ["foo"],
-- so the result is not "old record + one entry".  (2) no text / an empty first line: entry = [] or [""]
-- on "2000-01-01\n    1h foo\n" succeeds with "2000-01-01\n    1h foo\n    \n" — a blank line, NO entry is
-- added, and the text denotes nothing.  (3) a last line of blanks only: entry = ["2h", " "] succeeds
-- with "…    2h\n         \n" (the blank line ends the block, the entry ⟨2h, [""]⟩ is added), but
-- ["2h", " "] denotes nothing (written under a headline it is ErrorMalformedSummary).  (4) as for
-- `create`, a date that is not a calendar date when the record has to be created.
theorem track_refines (u : UTab) (cfg : Config) (now : Instant) (sel : DateSel) (entry : List Bytes)
    (file file' : Bytes) (rs : List Record) (bos : List BlockOut) (d : Date)
    (hp : parseDoc file = .records rs bos) (hd : atDate sel now.date = some d)
    (hclean : ∀ l ∈ entry, CleanLine l)
    (h : runCmd u cfg now (.track sel entry) file = .ok file') :
    ∃ rs' bos' ind e, parseDoc file' = .records rs' bos' ∧ Spec.Indent ind ∧ Denotes ind entry e ∧
      Spec.AddEntry rs d cfg.should e rs'
-/

/-- `track` (corrected: `hne`/`hnb` the entry has at least one line and no line of blanks only,
`hv` the date is a calendar date if a record has to be created, `hcr` the file does not end in a
lone carriage return): after a successful run, re-reading the file yields the old records with
exactly ONE entry — the one the text denotes, value and summary — added at the end of the target
record (the first record with that date), or a new record with just this entry and the configured
should-total at the abstract insert position when no record has that date; nothing else changes. -/
theorem track_refines (u : UTab) (cfg : Config) (now : Instant) (sel : DateSel) (entry : List Bytes)
    (file file' : Bytes) (rs : List Record) (bos : List BlockOut) (d : Date)
    (hp : parseDoc file = .records rs bos) (hd : atDate sel now.date = some d)
    (hclean : ∀ l ∈ entry, CleanLine l)
    (hne : entry ≠ []) (hnb : ∀ l ∈ entry, l.all isBlankByte = false)
    (hv : Spec.targetIdx rs d = none → d.valid = true) (hcr : file.getLast? ≠ some 13)
    (h : runCmd u cfg now (.track sel entry) file = .ok file') :
    ∃ rs' bos' ind e, parseDoc file' = .records rs' bos' ∧ Spec.Indent ind ∧ Denotes ind entry e ∧
      Spec.AddEntry rs d cfg.should e rs' :=
  KlogV.track_refines u cfg now sel entry file file' rs bos d hp hd hclean hne hnb hv hcr h

/-
-- TODO-unproved: the statement for ALL files.  Proved below for files that do not end in a lone
-- carriage return (`hcr`).  Missing: the case of a file whose last line ends in CR without LF — there
-- the reconciler rewrites that line (CR becomes part of CRLF), so the re-read record is not "old
-- lines + new lines" and the lemma `parseRecord_append_open_rejected` does not apply; one would need
-- that dropping a trailing CR from the last line of a record never removes its open range and never
-- repairs an error.  No counterexample is known (the statement is believed true).
theorem track_second_open_range_rejected (u : UTab) (cfg : Config) (now : Instant) (sel : DateSel) (entry : List Bytes)
    (file : Bytes) (rs : List Record) (bos : List BlockOut) (d : Date) (i : Nat) (r : Record) (ind : List Char) (e : Entry)
    (hp : parseDoc file = .records rs bos) (hd : atDate sel now.date = some d)
    (ht : Spec.targetIdx rs d = some i) (hr : rs[i]? = some r) (ho : r.hasOpen = true)
    (hden : Denotes ind entry e) (hopen : isOpen e.val = true) (hi : Spec.Indent ind) (hclean : ∀ l ∈ entry, CleanLine l) :
    ∀ f', runCmd u cfg now (.track sel entry) file ≠ .ok f'
-/

/-- A rejected command changes nothing: it has no file to write (C05); in particular `track` of an
open range into a record that already has one is rejected (partial: `hcr`, the file does not end in
a lone carriage return).  The indentation `ind` in `Denotes` is arbitrary: what a text denotes does
not depend on it (`KlogV.RefineLemmas.denotes_transfer`). -/
theorem track_second_open_range_rejected_partial (u : UTab) (cfg : Config) (now : Instant) (sel : DateSel) (entry : List Bytes)
    (file : Bytes) (rs : List Record) (bos : List BlockOut) (d : Date) (i : Nat) (r : Record) (ind : List Char) (e : Entry)
    (hp : parseDoc file = .records rs bos) (hd : atDate sel now.date = some d)
    (ht : Spec.targetIdx rs d = some i) (hr : rs[i]? = some r) (ho : r.hasOpen = true)
    (hden : Denotes ind entry e) (hopen : isOpen e.val = true) (hi : Spec.Indent ind) (hclean : ∀ l ∈ entry, CleanLine l)
    (hcr : file.getLast? ≠ some 13) :
    ∀ f', runCmd u cfg now (.track sel entry) file ≠ .ok f' :=
  KlogV.track_second_open_rejected_partial u cfg now sel entry file rs bos d i r ind e hp hd ht hr ho hden hopen hi hclean hcr

/-- Histories: the file produced by one command is the input of the next, so the per-command
theorems compose over any finite sequence of `create`/`track` commands: after the whole history
the file parses, and each step's records are related to the previous ones by the abstract step.
(definitions: KlogV/Lemmas/Refine1.lean) -/
abbrev AbstractStep (u : UTab) (cfg : Config) (now : Instant) (c : Cmd) (rs rs' : List Record) : Prop :=
  KlogV.AbstractStep u cfg now c rs rs'

abbrev CleanCmd (c : Cmd) : Prop := KlogV.CleanCmd c

/-- run a history; each command has its own clock reading -/
abbrev runCmdHistory (u : UTab) (cfg : Config) (hist : List (Instant × Cmd)) (f : Bytes) : Option Bytes :=
  KlogV.runCmdHistory u cfg hist f

/-- the commands of a history the theorem covers: `create`, and `track` with at least one line and
no line of blanks only (definition: KlogV/Lemmas/Refine22.lean) -/
abbrev HistCmd (c : Cmd) : Prop := KlogV.HistCmd c

/-
-- FALSE: as `create_refines` / `track_refines` (one-command histories with the counterexamples there);
-- moreover the other commands do not preserve "the file does not end in a lone carriage return"
-- (`stop` with a summary ending in CR on a last line without line feed), so they cannot be steps of
-- the induction.
theorem history_refines (u : UTab) (cfg : Config) (hist : List (Instant × Cmd)) (file file' : Bytes)
    (rs : List Record) (bos : List BlockOut) (hp : parseDoc file = .records rs bos)
    (hc : ∀ p ∈ hist, CleanCmd p.2 ∧ (∃ d, atDate (match p.2 with | .create s _ _ => s | .track s _ => s | _ => .default) p.1.date = some d))
    (h : runCmdHistory u cfg hist file = some file') :
    ∃ states : List (List Record), states.length = hist.length + 1 ∧ states.head? = some rs ∧
      (∃ bos', parseDoc file' = .records (states.getLast?.getD []) bos') ∧
      ∀ k (hk : k < hist.length), AbstractStep u cfg (hist[k]).1 (hist[k]).2 (states[k]?.getD []) (states[k + 1]?.getD [])
-/

/-- corrected: histories of `create` / `track` commands (`HistCmd`) at valid dates, starting from a
file that does not end in a lone carriage return (this is preserved by both commands:
`create_track_no_lone_cr`) -/
theorem history_refines (u : UTab) (cfg : Config) (hist : List (Instant × Cmd)) (file file' : Bytes)
    (rs : List Record) (bos : List BlockOut) (hp : parseDoc file = .records rs bos)
    (hc : ∀ p ∈ hist, CleanCmd p.2 ∧ HistCmd p.2 ∧
      (∃ d, atDate (match p.2 with | .create s _ _ => s | .track s _ => s | _ => .default) p.1.date = some d ∧ d.valid = true))
    (hcr : file.getLast? ≠ some 13)
    (h : runCmdHistory u cfg hist file = some file') :
    ∃ states : List (List Record), states.length = hist.length + 1 ∧ states.head? = some rs ∧
      (∃ bos', parseDoc file' = .records (states.getLast?.getD []) bos') ∧
      ∀ k (hk : k < hist.length), AbstractStep u cfg (hist[k]).1 (hist[k]).2 (states[k]?.getD []) (states[k + 1]?.getD []) :=
  KlogV.history_refines_create_track u cfg hist file file' rs bos hp hc hcr h

/-- `create` and `track` never leave a lone carriage return at the end of the file -/
theorem create_track_no_lone_cr (u : UTab) (cfg : Config) (now : Instant) (c : Cmd) (file file' : Bytes)
    (rs : List Record) (bos : List BlockOut) (hp : parseDoc file = .records rs bos)
    (hc : CleanCmd c ∧ HistCmd c ∧
      (∃ d, atDate (match c with | .create s _ _ => s | .track s _ => s | _ => .default) now.date = some d ∧ d.valid = true))
    (hcr : file.getLast? ≠ some 13) (h : runCmd u cfg now c file = .ok file') : file'.getLast? ≠ some 13 :=
  KlogV.create_track_no_lone_cr u cfg now c file file' rs bos hp hc hcr h

end KlogV.C04
