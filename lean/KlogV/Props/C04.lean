/-
C04 — Mutating commands have exactly their intended effect over any command history.
Property theorems only (helper lemmas: KlogV/Lemmas/Refine*.lean).
The abstract semantics is KlogV/Spec/AbstractCommands.lean (records only, no text).
Status: the refinement is proved for `create` and `track` (text-level edit ⇒ abstract effect on the
re-parsed records) and for the pause loop's arithmetic; for `start`/`stop`/`switch` it is stated
and — where not proved — covered by the correspondence/abstract-oracle run on the real code only
(see the list of obligations and DESIGN.md).
-/
import KlogV.Lemmas.Refine
import KlogV.Spec.Grammar
namespace KlogV.C04

/-- The pause loop: for EVERY sequence of clock readings — including backwards jumps and
multi-minute gaps — the minutes captured are the largest reading so far, never negative. -/
theorem pause_invariant (ticks : List Int) : Spec.captured ticks = (ticks.foldl max 0) :=
  KlogV.captured_eq_max ticks

theorem pause_monotone (ticks : List Int) (t : Int) : Spec.captured ticks ≤ Spec.captured (ticks ++ [t]) :=
  KlogV.captured_mono ticks t

/-- The loop of `klog pause` extends the pause by exactly the increments of `captured`: running
it over the readings is running the single-step reconcile for each positive increment, and the
increments add up to `captured`. -/
theorem pause_loop_increments (ticks : List Int) :
    (KlogV.pauseIncrements ticks 0).sum = Spec.captured ticks ∧ ∀ i ∈ KlogV.pauseIncrements ticks 0, 0 < i :=
  KlogV.pauseIncrements_spec ticks

theorem pause_loop_is_fold (today yesterday : Date) (ticks : List Int) (file : Bytes) :
    pauseLoop today yesterday ticks 0 file = KlogV.pauseFold today yesterday (KlogV.pauseIncrements ticks 0) file :=
  KlogV.pauseLoop_eq_fold today yesterday ticks file

/-- The position of a new record is the chronological one for a date-sorted file: sorted in,
sorted out, and the new record comes after records of the same date. -/
theorem insertPos_sorted (rs : List Record) (d : Date) (r' : Record) (hd : Spec.SameDate r'.date d)
    (hs : rs.Pairwise (fun a b => Spec.dateLe a.date b.date = true)) :
    (rs.take (Spec.insertPos rs d) ++ [r'] ++ rs.drop (Spec.insertPos rs d)).Pairwise (fun a b => Spec.dateLe a.date b.date = true) ∧
    (∀ r ∈ rs.take (Spec.insertPos rs d), Spec.dateLe r.date d = true) ∧
    (∀ r ∈ rs.drop (Spec.insertPos rs d), Spec.dateLe r.date d = false) :=
  KlogV.insertPos_sorted rs d r' hd hs

/-- bytes of a summary / entry line as typed on the command line: no line feed inside, no
carriage return at the end (D13) -/
def CleanLine (l : Bytes) : Prop := (10 : UInt8) ∉ l ∧ l.getLast? ≠ some 13

/-- `create`: after a successful run, re-reading the file yields exactly the old records plus ONE
new record — dated as requested, with the given (or configured) should-total and the given summary,
no entries — at the abstract insert position; every other record is untouched and in its place. -/
theorem create_refines (u : UTab) (cfg : Config) (now : Instant) (sel : DateSel) (should : Option Int)
    (summary : Option (List Bytes)) (file file' : Bytes) (rs : List Record) (bos : List BlockOut) (d : Date)
    (hp : parseDoc file = .records rs bos) (hd : atDate sel now.date = some d)
    (hclean : ∀ l ∈ summary.getD [], CleanLine l ∧ okRecordSummaryLine (decodeGo l) = true)
    (h : runCmd u cfg now (.create sel should summary) file = .ok file') :
    ∃ rs' bos', parseDoc file' = .records rs' bos' ∧
      Spec.Create rs d (match should with | some s => some s | none => cfg.should) ((summary.getD []).map decodeGo) rs' :=
  KlogV.create_refines u cfg now sel should summary file file' rs bos d hp hd hclean h

/-- the entry that the text of `klog track` denotes: what is read from its lines when they are
written as the only entry under a headline, with indentation `ind` (by C01 this is what the
grammar of the specification assigns to these lines) -/
def Denotes (ind : List Char) (entry : List Bytes) (e : Entry) : Prop :=
  ∃ first rest, entry = first :: rest ∧
    parseRecord 0 ("2000-01-01".toList :: (ind ++ decodeGo first) :: rest.map (fun l => ind ++ ind ++ decodeGo l)) =
      .record ⟨⟨2000, 1, 1, true⟩, none, [], [e]⟩

/-- `track`: after a successful run, re-reading the file yields the old records with exactly ONE
entry — the one the text denotes, value and summary — added at the end of the target record (the
first record with that date), or a new record with just this entry and the configured should-total
at the abstract insert position when no record has that date; nothing else changes. -/
theorem track_refines (u : UTab) (cfg : Config) (now : Instant) (sel : DateSel) (entry : List Bytes)
    (file file' : Bytes) (rs : List Record) (bos : List BlockOut) (d : Date)
    (hp : parseDoc file = .records rs bos) (hd : atDate sel now.date = some d)
    (hclean : ∀ l ∈ entry, CleanLine l)
    (h : runCmd u cfg now (.track sel entry) file = .ok file') :
    ∃ rs' bos' ind e, parseDoc file' = .records rs' bos' ∧ Spec.Indent ind ∧ Denotes ind entry e ∧
      Spec.AddEntry rs d cfg.should e rs' :=
  KlogV.track_refines u cfg now sel entry file file' rs bos d hp hd hclean h

/-- A rejected command changes nothing: it has no file to write (C05); in particular `track` of an
open range into a record that already has one is rejected. -/
theorem track_second_open_range_rejected (u : UTab) (cfg : Config) (now : Instant) (sel : DateSel) (entry : List Bytes)
    (file : Bytes) (rs : List Record) (bos : List BlockOut) (d : Date) (i : Nat) (r : Record) (ind : List Char) (e : Entry)
    (hp : parseDoc file = .records rs bos) (hd : atDate sel now.date = some d)
    (ht : Spec.targetIdx rs d = some i) (hr : rs[i]? = some r) (ho : r.hasOpen = true)
    (hden : Denotes ind entry e) (hopen : isOpen e.val = true) (hi : Spec.Indent ind) (hclean : ∀ l ∈ entry, CleanLine l) :
    ∀ f', runCmd u cfg now (.track sel entry) file ≠ .ok f' :=
  KlogV.track_second_open_rejected u cfg now sel entry file rs bos d i r ind e hp hd ht hr ho hden hopen hi hclean

/-- Histories: the file produced by one command is the input of the next, so the per-command
theorems compose over any finite sequence of `create`/`track` commands: after the whole history
the file parses, and each step's records are related to the previous ones by the abstract step. -/
def AbstractStep (u : UTab) (cfg : Config) (now : Instant) (c : Cmd) (rs rs' : List Record) : Prop :=
  match c with
  | .create sel should summary => ∃ d, atDate sel now.date = some d ∧
      Spec.Create rs d (match should with | some s => some s | none => cfg.should) ((summary.getD []).map decodeGo) rs'
  | .track sel entry => ∃ d ind e, atDate sel now.date = some d ∧ Spec.Indent ind ∧ Denotes ind entry e ∧ Spec.AddEntry rs d cfg.should e rs'
  | _ => True

def CleanCmd : Cmd → Prop
  | .create _ _ summary => ∀ l ∈ summary.getD [], CleanLine l ∧ okRecordSummaryLine (decodeGo l) = true
  | .track _ entry => ∀ l ∈ entry, CleanLine l
  | _ => True

/-- run a history; each command has its own clock reading -/
def runHistory (u : UTab) (cfg : Config) : List (Instant × Cmd) → Bytes → Option Bytes
  | [], f => some f
  | (now, c) :: rest, f => match runCmd u cfg now c f with
    | .ok f' => runHistory u cfg rest f'
    | _ => none

theorem history_refines (u : UTab) (cfg : Config) (hist : List (Instant × Cmd)) (file file' : Bytes)
    (rs : List Record) (bos : List BlockOut) (hp : parseDoc file = .records rs bos)
    (hc : ∀ p ∈ hist, CleanCmd p.2 ∧ (∃ d, atDate (match p.2 with | .create s _ _ => s | .track s _ => s | _ => .default) p.1.date = some d))
    (h : runHistory u cfg hist file = some file') :
    ∃ states : List (List Record), states.length = hist.length + 1 ∧ states.head? = some rs ∧
      (∃ bos', parseDoc file' = .records (states.getLast?.getD []) bos') ∧
      ∀ k (hk : k < hist.length), AbstractStep u cfg (hist[k]).1 (hist[k]).2 (states[k]?.getD []) (states[k + 1]?.getD []) :=
  KlogV.history_refines_create_track u cfg hist file file' rs bos hp hc h

end KlogV.C04
