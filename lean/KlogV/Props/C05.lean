/-
C05 — A mutating command either leaves a valid file or leaves the file untouched.
Property theorems only (helper lemmas: KlogV/Lemmas/CommandsSafe.lean).
In the model a command's outcome is `.ok newFile`, `.fail` or `.panic`; only `.ok` carries file
contents, i.e. a failing command has nothing to write.  That the real code writes exactly in
the `.ok` case and nothing otherwise is the correspondence checked on the code (bytes, mtime, exit
status).  What is proved here pins the ORDER of effects: parse → creators → all steps → safeguard
re-parse → only then a result.
-/
import KlogV.Lemmas.CommandsSafe
import KlogV.Lemmas.ReportTotal
import KlogV.Lemmas.Warnings
namespace KlogV.C05

/-- The file contents after a command: the new contents on success, the old ones otherwise. -/
def fileAfter (file : Bytes) : CmdOut → Bytes
  | .ok f => f
  | _ => file

theorem failure_untouched (file : Bytes) (out : CmdOut) (h : ∀ f, out ≠ .ok f) : fileAfter file out = file := by
  cases out <;> simp_all [fileAfter]

/-- Success ⇒ the new file parses without errors (the safeguard of `MakeResult`). -/
theorem reconcile_success_valid (file : Bytes) (creators : List Record → List BlockOut → Option Reconciler)
    (steps : List (Reconciler → Res Reconciler)) (f' : Bytes) (rec : Option Record)
    (h : reconcileFile file creators steps = (.ok f', rec)) :
    ∃ rs bos, parseDoc f' = .records rs bos :=
  KlogV.reconcileFile_ok_valid file creators steps f' rec h

/-- An unparseable target is never touched. -/
theorem reconcile_invalid_input (file : Bytes) (es : List GErr) (creators : List Record → List BlockOut → Option Reconciler)
    (steps : List (Reconciler → Res Reconciler)) (h : parseDoc file = .errors es) :
    reconcileFile file creators steps = (.fail, none) :=
  KlogV.reconcileFile_invalid file es creators steps h

/-- No eligible record ⇒ failure. -/
theorem reconcile_no_record (file : Bytes) (rs : List Record) (bos : List BlockOut)
    (creators : List Record → List BlockOut → Option Reconciler) (steps : List (Reconciler → Res Reconciler))
    (h : parseDoc file = .records rs bos) (hc : creators rs bos = none) :
    reconcileFile file creators steps = (.fail, none) :=
  KlogV.reconcileFile_no_record file rs bos creators steps h hc

/-- No partially applied multi-step edit: if step k of n fails, the command fails as a whole
(whatever the steps before it did to the in-memory reconciler). -/
theorem no_partial_multistep (file : Bytes) (rs : List Record) (bos : List BlockOut) (r0 : Reconciler)
    (creators : List Record → List BlockOut → Option Reconciler)
    (pre post : List (Reconciler → Res Reconciler)) (bad : Reconciler → Res Reconciler)
    (h : parseDoc file = .records rs bos) (hc : creators rs bos = some r0)
    (hpre : ∃ r, pre.foldl (fun (acc : Res Reconciler) st => acc.bind st) (.ok r0) = .ok r ∧ bad r = .err) :
    reconcileFile file creators (pre ++ bad :: post) = (.fail, none) :=
  KlogV.reconcileFile_step_fails file rs bos r0 creators pre post bad h hc hpre

/-- Every mutating command, for every configuration, clock, parameters and tick script: success
⇒ the resulting file parses without errors. -/
theorem command_success_valid (u : UTab) (cfg : Config) (now : Instant) (cmd : Cmd) (file f' : Bytes)
    (h : runCmd u cfg now cmd file = .ok f') : ∃ rs bos, parseDoc f' = .records rs bos :=
  KlogV.runCmd_ok_valid u cfg now cmd file f' h

/-- A command applied to an unparseable file fails (or the parser panics: D1/D2). -/
theorem command_invalid_input (u : UTab) (cfg : Config) (now : Instant) (cmd : Cmd) (file : Bytes) (es : List GErr)
    (h : parseDoc file = .errors es) : ∀ f', runCmd u cfg now cmd file ≠ .ok f' :=
  KlogV.runCmd_invalid u cfg now cmd file es h

/-- After a successful command klog prints the warnings for the records it has just written — AFTER the
file is on disk.  That step cannot crash (which would leave a changed file behind an error exit): the
file parses (above), parsed records carry calendar dates, and for those `CheckForWarnings` completes
whenever no record's own total overflows (finding D12) and the clock is two days inside the calendar. -/
theorem success_then_warnings_complete (u : UTab) (cfg : Config) (now : Instant) (cmd : Cmd) (file f' : Bytes)
    (dis : Disabled) (h : runCmd u cfg now cmd file = .ok f')
    (hnv : now.date.valid = true)
    (hnow : (now.date.plusDays (-2)).isSome = true ∧ (now.date.plusDays 2).isSome = true) :
    ∃ rs bos, parseDoc f' = .records rs bos ∧
      ((∀ r ∈ rs, sumRes (r.entries.map Entry.minutes) ≠ .panic) → ∃ ws, checkWarnings now dis rs = .ok ws) := by
  obtain ⟨rs, bos, hp⟩ := KlogV.runCmd_ok_valid u cfg now cmd file f' h
  exact ⟨rs, bos, hp, fun ht =>
    KlogV.checkWarnings_no_panic now dis rs hnv hnow (KlogV.parseDoc_dates_valid f' rs bos hp) ht⟩

/-- Non-vacuity: `track` with text that is not an entry fails; with an entry it succeeds. -/
example : runCmd ⟨fun _ => false, id⟩ {} ⟨⟨2021, 3, 4, true⟩, 12, 0⟩ (.track .default ["foo".toUTF8.toList])
    "2021-03-04\n    1h\n".toUTF8.toList = .fail := by decide +kernel
example : runCmd ⟨fun _ => false, id⟩ {} ⟨⟨2021, 3, 4, true⟩, 12, 0⟩ (.track .default ["2h".toUTF8.toList])
    "2021-03-04\n    1h\n".toUTF8.toList = .ok "2021-03-04\n    1h\n    2h\n".toUTF8.toList := by decide +kernel

end KlogV.C05
