/-
C16 — Dates, times, durations and ranges: exact text round trip and exact arithmetic.
Property theorems only (helper lemmas: KlogV/Lemmas/Values.lean).
-/
import KlogV.Lemmas.Values
import KlogV.Props.Rx.Values
import KlogV.Props.Rx.Model
namespace KlogV.C16

/-! ### Times -/

/-- Every accepted time literal yields a well-formed time (hour < 24, minute < 60, shift -1/0/1). -/
theorem time_parse_wf (s : List Char) (t : Time) (h : Time.parse s = some t) : t.wf = true :=
  Time.parse_wf s t h

/-- Writing a time out and reading it back yields the same value and notation. -/
theorem time_parse_print (t : Time) (h : t.wf = true) : Time.parse t.print = some t :=
  Time.parse_print t h

/-- Two well-formed times denote the same instant exactly when hour, minute and shift agree. -/
theorem time_offset_inj (a b : Time) (ha : a.wf = true) (hb : b.wf = true) (h : a.offset = b.offset) :
    a.h = b.h ∧ a.min = b.min ∧ a.shift = b.shift :=
  Time.offset_inj a b ha hb h

/-- Adding a duration gives the time that many minutes later exactly when that lies between
the start of the previous and the end of the next day; otherwise an error. -/
theorem time_plus_spec (t : Time) (d : Int) (h : t.wf = true) :
    (∃ t', t.plus d = some t' ∧ t'.wf = true ∧ t'.offset = t.offset + d ∧ t'.is24 = t.is24) ↔
      (-1440 ≤ t.offset + d ∧ t.offset + d < 2880) :=
  Time.plus_spec t d h

theorem time_plus_none (t : Time) (d : Int) (h : t.wf = true) :
    t.plus d = none ↔ ¬ (-1440 ≤ t.offset + d ∧ t.offset + d < 2880) :=
  Time.plus_none t d h

/-- `24:00` = `0:00>`, `<24:00` = `0:00`, `12:00am` = `0:00` (same value). -/
example : Time.parse "24:00".toList = Time.parse "0:00>".toList := by decide
example : Time.parse "<24:00".toList = Time.parse "0:00".toList := by decide
example : (Time.parse "12:00am".toList).map Time.offset = (Time.parse "0:00".toList).map Time.offset := by decide
example : Time.parse "24:00>".toList = none ∧ Time.parse "24:01".toList = none ∧ Time.parse "13:00pm".toList = none := by decide

/-! ### Ranges -/

/-- A range is valid exactly when its end is not before its start, and lasts end − start minutes. -/
theorem range_valid_iff (s e : Time) : e.afterOrEqual s = true ↔ s.offset ≤ e.offset := by
  simp [Time.afterOrEqual]

theorem range_minutes (s e : Time) (sp : Bool) : (EntryVal.range s e sp).minutes = e.offset - s.offset := rfl

/-! ### Dates -/

/-- A date literal is accepted only if it is the canonical spelling of an existing calendar date. -/
theorem date_parse_sound (s : List Char) (x : Date) (h : Date.parse s = some x) :
    x.valid = true ∧ x.print = s :=
  Date.parse_sound s x h

/-- Every existing date, written out, is read back as the same date with the same separator. -/
theorem date_parse_print (x : Date) (h : x.valid = true) : Date.parse x.print = some x :=
  Date.parse_print x h

example : Date.parse "2020-02-30".toList = none ∧ Date.parse "2020-01/01".toList = none ∧
    Date.parse "1900-02-29".toList = none ∧ (Date.parse "2000/02/29".toList).isSome = true := by decide

/-! ### Durations -/

/-- Well-formed duration values: in range, and notation flags as the parser produces them
(`Dur.WF`, defined in Lemmas/Values.lean):
  inRange d.mins ∧ (d.mins = 0 → zeroSign ∈ {-1,0,1} ∧ forcePlus = (zeroSign = 1)) ∧
  (d.mins ≠ 0 → zeroSign = 0 ∧ (forcePlus → d.mins > 0)) -/
abbrev DurWF (d : Dur) : Prop := Dur.WF d

theorem dur_parse_wf (s : List Char) (d : Dur) (h : Dur.parse s = .ok d) : DurWF d :=
  Dur.parse_wf s d h

/-- Writing a duration out and reading it back yields the same value and notation; in
particular it never panics and never errs. -/
theorem dur_parse_print (d : Dur) (h : DurWF d) : Dur.parse d.print = .ok d :=
  Dur.parse_print d h

/-- `90m` = `1h30m`; `1h60m` is rejected; the sign of zero is notation. -/
example : (Dur.parse "90m".toList) = .ok ⟨90, false, 0⟩ ∧ (Dur.parse "1h30m".toList) = .ok ⟨90, false, 0⟩ := by decide
example : Dur.parse "1h60m".toList = .err ∧ Dur.parse "60m".toList = .ok ⟨60, false, 0⟩ := by decide
example : Dur.parse "-0m".toList = .ok ⟨0, false, -1⟩ ∧ Dur.parse "+0m".toList = .ok ⟨0, true, 1⟩ := by decide
/-- the overflow witness (D1/D2): a literal beyond int64 makes the parser panic -/
example : Dur.parse "9223372036854775808h".toList = .panic ∧ Dur.parse "9223372036854775807h".toList = .panic := by decide

end KlogV.C16
