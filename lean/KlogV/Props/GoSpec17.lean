/-
END TO END, C17: `service.RoundToNearest` OF THE GO SOURCE rounds to the nearest multiple, ties up.
`roundToNearest_eq` (Props/GoSrc.lean: the translated function computes the model's) composed with
`C17.round_nearest_ties_up` (about the model).  Property theorems only.
-/
import KlogV.Props.GoSrc
import KlogV.Props.C17
import KlogV.GoSem.SpecDefs
namespace KlogV.GoTie
open KlogV.Go

/-- C17: "the current time rounded to the nearest multiple of the chosen rounding (ties up)" — about
`service.RoundToNearest` as translated from klog/service/rounding.go on this run, for every minute `m` of the day and
every allowed rounding `v`: the result is a well-formed time whose offset is a multiple of `v`, at most `v/2` above and
less than `v/2` below `m` (for 23:30–23:59 rounded up it is `0:00>`, offset 1440). -/
theorem go_round_nearest_ties_up (m v : Nat) (hm : m < 1440)
    (hv : v = 5 ∨ v = 10 ∨ v = 12 ∨ v = 15 ∨ v = 20 ∨ v = 30 ∨ v = 60) :
    ∃ r : GoSrc.time, GoSrc.RoundToNearest ⟨(m / 60 : Nat), (m % 60 : Nat), 0, ⟨true⟩⟩ ⟨v⟩ = .ok r ∧ GoTimeWF r ∧
      goTimeOffset r % v = 0 ∧ 2 * (goTimeOffset r - m) ≤ v ∧ 2 * ((m : Int) - goTimeOffset r) < v := by
  have hspec := C17.round_nearest_ties_up m v hm hv
  have hwf : (⟨m / 60, m % 60, 0, true⟩ : Time).wf = true := by
    simp [Time.wf]; omega
  have hcont : validRoundings.contains v = true := by
    rcases hv with h | h | h | h | h | h | h <;> subst h <;> decide
  have htie := roundToNearest_eq ⟨m / 60, m % 60, 0, true⟩ v hwf rfl rfl hcont
  obtain ⟨h1, h2, h3, h4⟩ := hspec
  refine ⟨(roundToNearest ⟨m / 60, m % 60, 0, true⟩ v).toGo, htie, ?_, ?_, ?_, ?_⟩
  · simp only [Time.wf, Bool.and_eq_true, decide_eq_true_eq, Bool.or_eq_true, beq_iff_eq] at h1
    obtain ⟨⟨ha, hb⟩, hc⟩ := h1
    refine ⟨by simp [Time.toGo], by simp [Time.toGo]; omega, by simp [Time.toGo], by simp [Time.toGo]; omega, ?_⟩
    simp only [Time.toGo]
    rcases hc with (hc | hc) | hc <;> simp [hc]
  all_goals
    have hoff : goTimeOffset (roundToNearest ⟨m / 60, m % 60, 0, true⟩ v).toGo = (roundToNearest ⟨m / 60, m % 60, 0, true⟩ v).offset := by
      simp only [Time.wf, Bool.and_eq_true, decide_eq_true_eq, Bool.or_eq_true, beq_iff_eq] at h1
      obtain ⟨⟨ha, hb⟩, hc⟩ := h1
      simp only [goTimeOffset, Time.toGo, Time.offset]
      rcases hc with (hc | hc) | hc <;> simp [hc] <;> omega
    rw [hoff]
    assumption

end KlogV.GoTie
