/-
`IsSpaceOrTab` AND `SubRune` OF THE GO SOURCE (klog/parser/txt/util.go, translated on every run: Gen/GoTxt.lean).
`IsSpaceOrTab` decides where the headline's date ends and where an entry's value ends: the blank that the grammar of the
specification demands there is U+0020 or U+0009 and nothing else (in particular no other Unicode space separator: seeded
change y-a1) — it is the model's `isSpTab` (Model/Record.lean).  Property theorems only.
-/
import KlogV.Gen.GoTxt
import KlogV.Model.Record
namespace KlogV.GoTie
open KlogV.Go

/-- for every rune, valid character or not -/
theorem isSpaceOrTab_eq (r : Int) : GoTxt.IsSpaceOrTab r = .ok (r == 32 || r == 9) := rfl

/-- … on characters it is the model's `isSpTab` -/
theorem isSpaceOrTab_char (c : Char) : GoTxt.IsSpaceOrTab (c.toNat : Int) = .ok (isSpTab c) := by
  have key : ∀ (d : Char), ((c.toNat : Int) == (d.toNat : Int)) = (c == d) := by
    intro d
    rw [Bool.eq_iff_iff]; simp only [beq_iff_eq]
    constructor
    · intro h; exact Char.toNat_inj.mp (by omega)
    · intro h; subst h; rfl
  have h32 := key ' '
  have h9 := key '\t'
  rw [isSpaceOrTab_eq]
  show Except.ok (((c.toNat : Int) == ((' ' : Char).toNat : Int)) || ((c.toNat : Int) == (('\t' : Char).toNat : Int))) = _
  rw [h32, h9]; rfl

set_option linter.unusedSimpArgs false in
private theorem add_int (a b : Int) (h : inInt64 (a + b)) : add a b = a + b := by
  show wrap (a + b) = a + b
  exact wrap_id h
private theorem sub_int (a b : Int) (h : inInt64 (a - b)) : sub a b = a - b := by
  show wrap (a - b) = a - b
  exact wrap_id h

/-- `SubRune(text, start, length)` for non-negative arguments below 2⁶²: `nil` when `start` is not inside the text, otherwise
the runes from `start`, at most `length` of them (what `Parseable.Peek` and `PeekUntil` read the line with) -/
theorem subRune_eq (text : List Int) (s l n : Int) (hn : n = (text.length : Int)) (h1 : n < 4611686018427387904)
    (h2 : 0 ≤ s ∧ s < 4611686018427387904) (h3 : 0 ≤ l ∧ l < 4611686018427387904) :
    GoTxt.SubRune text s l =
      .ok (if s ≥ n then none else some ((text.drop s.toNat).take l.toNat)) := by
  unfold GoTxt.SubRune
  have hlen : len text = n := by simp [len, hn]
  by_cases hs : s ≥ n
  · simp [hlen, ge, hs, pure, Except.pure, bind, Except.bind]
  · have hs' : ¬ (n ≤ s) := by omega
    have ha : add s l = s + l := add_int s l (by unfold inInt64; omega)
    have hb : sub n s = n - s := sub_int n s (by unfold inInt64; omega)
    by_cases hg : s + l > n
    · have ha2 : add s (n - s) = n := by rw [add_int s (n - s) (by unfold inInt64; omega)]; omega
      simp [hlen, ge, gt, hs, hs', ha, hb, hg, ha2, slice, pure, Except.pure, bind, Except.bind]
      rw [if_pos (by omega)]
      have e1 : (n - s).toNat = text.length - s.toNat := by omega
      have e2 : (List.drop s.toNat text).length ≤ l.toNat := by simp; omega
      simp only [e1]
      rw [List.take_of_length_le (by simp), List.take_of_length_le e2]
    · simp [hlen, ge, gt, hs, hs', ha, hg, slice, pure, Except.pure, bind, Except.bind]
      rw [if_pos (by omega)]
      have e1 : (s + l - s).toNat = l.toNat := by omega
      simp only [e1]

example : (GoTxt.IsSpaceOrTab 0xA0).toOption = some false ∧ (GoTxt.IsSpaceOrTab 0x3000).toOption = some false ∧
    (GoTxt.IsSpaceOrTab 9).toOption = some true := by decide

end KlogV.GoTie
