/-
`IsSpaceOrTab` OF THE GO SOURCE (klog/parser/txt/util.go, translated on every run: Gen/GoTxt.lean).
`IsSpaceOrTab` decides where the headline's date ends and where an entry's value ends: the blank that the grammar of the
specification demands there is U+0020 or U+0009 and nothing else (in particular no other Unicode space separator: seeded
change y-a1) — it is the model's `isSpTab` (Model/Record.lean).  Property theorems only.
-/
import KlogV.Gen.GoTxt
import KlogV.Model.Record
namespace KlogV.GoTie
open KlogV.Go

/-- for every rune, valid character or not -/
theorem isSpaceOrTab_eq (r : Int) : GoTxt.IsSpaceOrTab r = .ok (r == 32 || r == 9) := rfl

/-- … on characters it is the model's `isSpTab` -/
theorem isSpaceOrTab_char (c : Char) : GoTxt.IsSpaceOrTab (c.toNat : Int) = .ok (isSpTab c) := by
  have key : ∀ (d : Char), ((c.toNat : Int) == (d.toNat : Int)) = (c == d) := by
    intro d
    rw [Bool.eq_iff_iff]; simp only [beq_iff_eq]
    constructor
    · intro h; exact Char.toNat_inj.mp (by omega)
    · intro h; subst h; rfl
  have h32 := key ' '
  have h9 := key '\t'
  rw [isSpaceOrTab_eq]
  show Except.ok (((c.toNat : Int) == ((' ' : Char).toNat : Int)) || ((c.toNat : Int) == (('\t' : Char).toNat : Int))) = _
  rw [h32, h9]; rfl

example : (GoTxt.IsSpaceOrTab 0xA0).toOption = some false ∧ (GoTxt.IsSpaceOrTab 0x3000).toOption = some false ∧
    (GoTxt.IsSpaceOrTab 9).toOption = some true := by decide

end KlogV.GoTie
