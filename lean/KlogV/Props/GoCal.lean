/-
THE GO SOURCE OF DATES AND CALENDAR PERIODS, TRANSLATED, COMPUTES THE MODEL'S CALENDAR.
`KlogV/Gen/GoCal.lean` is regenerated on every run by `klogv extract` from klog/date.go and klog/service/period/*.go
(harness/extract_gosrc.go; library semantics: KlogV/GoSem/Civil.lean).  Go's unbounded `for` loops are translated with
64 iterations of fuel; running out of fuel is an `.err` result, and since none of these functions can return a Go error the
theorems below also say that the fuel always suffices.  Property theorems only (helper lemmas: KlogV/Lemmas/GoCal*.lean).
-/
import KlogV.Lemmas.GoCalA
import KlogV.Lemmas.GoCalB
namespace KlogV.GoTie
open KlogV.Go

/-! ## klog/date.go -/

/-- `NewDate`: exactly the dates of the proleptic Gregorian calendar in the years 0000–9999 -/
theorem newDate_eq (y m d : Nat) : (GoCal.NewDate y m d).res = (optRes (mkDate y m d)).map Date.toGo :=
  GoL.newDate_eq y m d

theorem newDate_negative (y m d : Int) (h : y < 0 ∨ m < 0 ∨ d < 0) : (GoCal.NewDate y m d).res = .err :=
  GoL.newDate_negative y m d h

theorem date_toString_eq (x : Date) (h : x.valid = true) : x.toGo.ToString = .ok x.print :=
  GoL.date_toString_eq x h

theorem date_weekday_eq (x : Date) (h : x.valid = true) : x.toGo.Weekday = .ok (x.weekday : Int) :=
  GoL.date_weekday_eq x h

theorem date_quarter_eq (x : Date) (h : x.valid = true) : x.toGo.Quarter = .ok (x.quarter : Int) :=
  GoL.date_quarter_eq x h

theorem date_weekNumber_eq (x : Date) (h : x.valid = true) :
    x.toGo.WeekNumber = .ok (x.isoWeek.1, (x.isoWeek.2 : Int)) :=
  GoL.date_weekNumber_eq x h

theorem date_isEqualTo_eq (a b : Date) : a.toGo.IsEqualTo b.toGo = .ok (a.sameDay b) :=
  GoL.date_isEqualTo_eq a b

theorem date_isAfterOrEqual_eq (a b : Date) : a.toGo.IsAfterOrEqual b.toGo = .ok (a.afterOrEqual b) :=
  GoL.date_isAfterOrEqual_eq a b

/-- `PlusDays`: the model's day stepping, a panic exactly where the model says so (outside 0000-01-01 … 9999-12-31) -/
theorem date_plusDays_eq (x : Date) (n : Int) (h : x.valid = true) :
    (x.toGo.PlusDays n).res = match x.plusDays n with | some r => .ok r.toGo | none => .panic :=
  GoL.date_plusDays_eq x n h

/-! ## klog/service/period/*.go: the periods -/

theorem week_period_eq (x : Date) (h : x.valid = true) :
    (GoCal.Week.Period ⟨x.toGo⟩).res = match weekPeriod x with | some p => .ok p.toGo | none => .panic :=
  GoL.week_period_eq x h

/-- the loop that walks from the 28th to the end of the month ends on the model's `daysIn` -/
theorem month_period_eq (x : Date) (h : x.valid = true) :
    (GoCal.Month.Period ⟨x.toGo⟩).res = .ok (monthPeriod x).toGo :=
  GoL.month_period_eq x h

theorem quarter_period_eq (x : Date) (h : x.valid = true) :
    (GoCal.Quarter.Period ⟨x.toGo⟩).res = .ok (quarterPeriod x).toGo :=
  GoL.quarter_period_eq x h

theorem year_period_eq (x : Date) (h : x.valid = true) :
    (GoCal.Year.Period ⟨x.toGo⟩).res = .ok (yearPeriod x).toGo :=
  GoL.year_period_eq x h

/-! ## … and the previous periods -/

theorem week_previous_eq (x : Date) (h : x.valid = true) :
    (GoCal.Week.Previous ⟨x.toGo⟩).res = match previousDate .week x with | some r => .ok ⟨r.toGo⟩ | none => .panic :=
  GoL.week_previous_eq x h

theorem month_previous_eq (x : Date) (h : x.valid = true) :
    (GoCal.Month.Previous ⟨x.toGo⟩).res = match previousDate .month x with | some r => .ok ⟨r.toGo⟩ | none => .panic :=
  GoL.month_previous_eq x h

theorem quarter_previous_eq (x : Date) (h : x.valid = true) :
    (GoCal.Quarter.Previous ⟨x.toGo⟩).res = match previousDate .quarter x with | some r => .ok ⟨r.toGo⟩ | none => .panic :=
  GoL.quarter_previous_eq x h

theorem year_previous_eq (x : Date) (h : x.valid = true) :
    (GoCal.Year.Previous ⟨x.toGo⟩).res = match previousDate .year x with | some r => .ok ⟨r.toGo⟩ | none => .panic :=
  GoL.year_previous_eq x h

/-! Non-vacuity: a leap day, and the loops at work. -/
example : (⟨2024, 2, 29, true⟩ : Date).valid = true := by decide
example : (GoCal.Month.Period ⟨(⟨2024, 2, 10, true⟩ : Date).toGo⟩).res = .ok ⟨(⟨2024, 2, 1, true⟩ : Date).toGo, (⟨2024, 2, 29, true⟩ : Date).toGo⟩ := by decide
example : (GoCal.Week.Period ⟨(⟨0, 1, 1, true⟩ : Date).toGo⟩).res = .panic := by decide

end KlogV.GoTie
