/-
`NewDateFromString` OF THE GO SOURCE IS THE MODEL'S `Date.parse` — from the regular expression in the source to the date.
The translated function (Gen/GoCal.lean) takes `datePattern.FindStringSubmatch` as a parameter; its contract follows from
the generic `SubmatchSpec` (GoSem/RxSpec.lean) for any pattern with the marked language of the expected date pattern (the source contains one:
`date_pattern_in_source`) via `Regexes.date_marked` /
`date_groups`.  After the match the Go code refuses mixed separators (`strings.Count(s, "-") == 1`), re-assembles the digits
with dashes, parses them with `civil.ParseDate` (library semantics: KlogV/GoSem/Civil.lean) and checks the years 0–9999.
Property theorems only (helper lemmas: KlogV/Lemmas/GoDateParse*.lean).
-/
import KlogV.Lemmas.GoDateParse
namespace KlogV.GoTie
open KlogV.Go KlogV.Rx

theorem date_pattern_in_source :
    ∃ g ∈ Gen.allRegexes, g.2.2.1 = (true, true) ∧ g.2.2.2 = [] ∧ SameMarked g.2.1 Expect.date :=
  KlogV.Regexes.tie_sound Regexes.date

/-- the contract of `datePattern.FindStringSubmatch`: on a string of the pattern's shape the string and the three digit groups -/
theorem dateFind_of_spec (env : Env) (re : Re) (hre : SameMarked re Expect.date) (find : Str → List Str)
    (h : SubmatchSpec env re 3 find) : DateFind find :=
  GoL.dateFind_of_spec env re hre find h

theorem newDateFromString_eq (find : Str → List Str) (hf : DateFind find) (s : List Char) :
    (GoCal.NewDateFromString find s).res = (optRes (Date.parse s)).map Date.toGo :=
  GoL.newDateFromString_eq find hf s

theorem newDateFromString_of_regexp (env : Env) (re : Re) (hre : SameMarked re Expect.date) (find : Str → List Str)
    (h : SubmatchSpec env re 3 find) (s : List Char) :
    (GoCal.NewDateFromString find s).res = (optRes (Date.parse s)).map Date.toGo :=
  newDateFromString_eq find (dateFind_of_spec env re hre find h) s

end KlogV.GoTie
