/-
`NewDateFromString` OF THE GO SOURCE IS THE MODEL'S `Date.parse` — from the regular expression in the source to the date.
The translated function (Gen/GoCal.lean) takes `datePattern.FindStringSubmatch` as a parameter; its contract follows from
the generic `SubmatchSpec` (GoSem/RxSpec.lean) instantiated with the pattern translated from the source
(`Gen.rx_klog_datePattern`) via the kernel-checked equivalence with the expected pattern and `Regexes.date_marked` /
`date_groups`.  After the match the Go code refuses mixed separators (`strings.Count(s, "-") == 1`), re-assembles the digits
with dashes, parses them with `civil.ParseDate` (library semantics: KlogV/GoSem/Civil.lean) and checks the years 0–9999.
Property theorems only (helper lemmas: KlogV/Lemmas/GoDateParse*.lean).
-/
import KlogV.Lemmas.GoDateParse
namespace KlogV.GoTie
open KlogV.Go KlogV.Rx

theorem datePattern_tied : equivCheck 2000 (mark Gen.rx_klog_datePattern) (mark Expect.date) = true := by decide +kernel

/-- the contract of `datePattern.FindStringSubmatch`: on a string of the pattern's shape the string and the three digit groups -/
theorem dateFind_of_spec (env : Env) (find : Str → List Str) (h : SubmatchSpec env Gen.rx_klog_datePattern 3 find) :
    DateFind find :=
  GoL.dateFind_of_spec env find h

theorem newDateFromString_eq (find : Str → List Str) (hf : DateFind find) (s : List Char) :
    (GoCal.NewDateFromString find s).res = (optRes (Date.parse s)).map Date.toGo :=
  GoL.newDateFromString_eq find hf s

theorem newDateFromString_of_regexp (env : Env) (find : Str → List Str)
    (h : SubmatchSpec env Gen.rx_klog_datePattern 3 find) (s : List Char) :
    (GoCal.NewDateFromString find s).res = (optRes (Date.parse s)).map Date.toGo :=
  newDateFromString_eq find (dateFind_of_spec env find h) s

end KlogV.GoTie
