/-
`Reflower.Reflow` OF THE GO SOURCE IS THE MODEL'S `reflow`.
`KlogV/Gen/GoFmt.lean` is regenerated on every run by `klogv extract` from klog/app/cli/terminalformat/reflow.go.  The Go
code works on BYTES (`len` is the byte length: the line is broken when `len(line) + len(next word) > maxLength`), the
model (KlogV/Model/Prettify.lean) on characters with `byteLen`; the tie is stated through the UTF-8 encoding.  The model's
`reflow` is what the C10 theorems (`reflow_words`, the rendering never fails, …) are about.
Property theorems only (helper lemmas: KlogV/Lemmas/GoFmt*.lean).
-/
import KlogV.Lemmas.GoFmt
namespace KlogV.GoTie
open KlogV.Go

/-- for every text, every width and every list of line prefixes (all below 2⁶² bytes / entries) -/
theorem reflow_eq (maxLen : Nat) (prefixes : List (List Char)) (text : List Char)
    (h1 : (maxLen : Int) < 4611686018427387904) (h2 : ((encode text).length : Int) < 4611686018427387904)
    (h3 : (prefixes.length : Int) < 4611686018427387904)
    (h4 : ∀ p ∈ prefixes, ((encode p).length : Int) < 4611686018427387904) :
    (⟨(maxLen : Int), [10]⟩ : GoFmt.Reflower).Reflow (encode text) (prefixes.map encode) =
      .ok (encode (reflow maxLen prefixes text)) :=
  GoL.reflow_eq maxLen prefixes text h1 h2 h3 h4

/-- non-vacuity -/
example : ((⟨5, [10]⟩ : GoFmt.Reflower).Reflow (encode "ab cd ef".toList) [encode "> ".toList]).toOption =
    some (encode "> ab\n> cd ef".toList) := by decide

end KlogV.GoTie
