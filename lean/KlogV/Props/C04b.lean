/-
C04 (continued) — refinement of `start`, `stop`, `switch` and `pause` to the abstract semantics
(KlogV/Spec/AbstractCommands.lean).  Property theorems only (helper lemmas: KlogV/Lemmas/RefineB*.lean).
Hypotheses shared with `create`/`track` (see Props/C04.lean): the file does not end in a lone
carriage return (D13), dates of records to be created are calendar dates, summary lines given on
the command line contain no line feed, do not end in CR, and continuation lines are not blank-only
(all guaranteed by the CLI's argument decoders).
-/
import KlogV.Lemmas.RefineB
namespace KlogV.C04

/-- summary lines as typed: clean, and lines after the first are not blank-only -/
def CleanSummary (ls : List Bytes) : Prop :=
  (∀ l ∈ ls, KlogV.CleanLine l) ∧ ∀ l ∈ ls.drop 1, okEntrySummaryCont (decodeGo l) = true

/-- the record `--resume`/`--resume-nth` look at: the target record, or the fresh record about to
be created -/
def currentRecord (rs : List Record) (d : Date) (cfgShould : Option Int) : Record :=
  match Spec.targetIdx rs d with
  | some i => (rs[i]?).getD ⟨d, cfgShould, [], []⟩
  | none => ⟨d, cfgShould, [], []⟩

/-- `start`: after a successful run the file holds the old records plus ONE open range starting
at the time the command determined (C17), with the summary the flags select, at the end of the
record for the date (created, with the configured should-total, at its position when absent). -/
theorem start_refines (u : UTab) (cfg : Config) (now : Instant) (a : AtArgs) (s : SummaryArgs)
    (file file' : Bytes) (rs : List Record) (bos : List BlockOut) (d : Date) (t : Time)
    (hp : parseDoc file = .records rs bos) (hd : atDate a.date now.date = some d)
    (ht : atTime a now cfg = .ok t) (htw : t.wf = true)
    (hs : CleanSummary (s.text.getD [])) (hcr : file.getLast? ≠ some 13)
    (hv : Spec.targetIdx rs d = none → d.valid = true)
    (h : runCmd u cfg now (.start a s) file = .ok file') :
    ∃ rs' bos' sm, parseDoc file' = .records rs' bos' ∧
      Spec.chosenSummary (s.text.map (·.map decodeGo)) s.resume s.resumeNth (currentRecord rs d cfg.should) (Spec.previousOf rs d) = some sm ∧
      Spec.Start rs d cfg.should t sm rs' :=
  KlogV.start_refines u cfg now a s file file' rs bos d t hp hd ht htw hs hcr hv h

/-- `start` is rejected when the record already has an open range, or when the summary flags
conflict / the entry to resume does not exist. -/
theorem start_rejected (u : UTab) (cfg : Config) (now : Instant) (a : AtArgs) (s : SummaryArgs)
    (file : Bytes) (rs : List Record) (bos : List BlockOut) (d : Date)
    (hp : parseDoc file = .records rs bos) (hd : atDate a.date now.date = some d)
    (hrej : (∃ i r, Spec.targetIdx rs d = some i ∧ rs[i]? = some r ∧ r.hasOpen = true) ∨
      Spec.chosenSummary (s.text.map (·.map decodeGo)) s.resume s.resumeNth (currentRecord rs d cfg.should) (Spec.previousOf rs d) = none) :
    ∀ f', runCmd u cfg now (.start a s) file ≠ .ok f' :=
  KlogV.start_rejected u cfg now a s file rs bos d hp hd hrej

/-- the record `stop` acts on and the time relative to it: the record for the date; or — only when
neither a date nor a time was given and there is no record for the date — the record of the day
before, with the time shifted by 24 hours -/
def StopTarget (rs : List Record) (a : AtArgs) (d : Date) (t : Time) (i : Nat) (t' : Time) : Prop :=
  (Spec.targetIdx rs d = some i ∧ t' = t) ∨
  (Spec.targetIdx rs d = none ∧ a.date.isExplicit = false ∧ a.time = none ∧
    ∃ y, d.plusDays (-1) = some y ∧ Spec.targetIdx rs y = some i ∧ t.plus 1440 = some t')

/-- `stop`: the open range of the target record becomes a range ending at the given time, the
extra summary is appended; nothing else changes. -/
theorem stop_refines (u : UTab) (cfg : Config) (now : Instant) (a : AtArgs) (summary : Option (List Bytes))
    (file file' : Bytes) (rs : List Record) (bos : List BlockOut) (d : Date) (t : Time)
    (hp : parseDoc file = .records rs bos) (hd : atDate a.date now.date = some d)
    (ht : atTime a now cfg = .ok t) (htw : t.wf = true)
    (hs : CleanSummary (summary.getD [])) (hcr : file.getLast? ≠ some 13)
    (h : runCmd u cfg now (.stop a summary) file = .ok file') :
    ∃ rs' bos' i t', parseDoc file' = .records rs' bos' ∧ StopTarget rs a d t i t' ∧
      Spec.Stop rs i t' ((summary.getD []).map decodeGo) rs' :=
  KlogV.stop_refines u cfg now a summary file file' rs bos d t hp hd ht htw hs hcr h

/-- `stop` is rejected when there is nothing to stop or the end would be before the start. -/
theorem stop_rejected (u : UTab) (cfg : Config) (now : Instant) (a : AtArgs) (summary : Option (List Bytes))
    (file : Bytes) (rs : List Record) (bos : List BlockOut) (d : Date) (t : Time) (i : Nat) (r : Record)
    (hp : parseDoc file = .records rs bos) (hd : atDate a.date now.date = some d) (ht : atTime a now cfg = .ok t)
    (hi : Spec.targetIdx rs d = some i) (hr : rs[i]? = some r)
    (hrej : r.hasOpen = false ∨ ∃ pre post s sp x sm, r.entries = pre ++ ⟨.openRange s sp x, sm⟩ :: post ∧
      (∀ p ∈ pre, isOpen p.val = false) ∧ t.offset < s.offset) :
    ∀ f', runCmd u cfg now (.stop a summary) file ≠ .ok f' :=
  KlogV.stop_rejected u cfg now a summary file rs bos d t i r hp hd ht hi hr hrej

/-- `switch`: stop at the time, then start at the same time on the same record; if either half
is rejected nothing is written (C05.no_partial_multistep). -/
theorem switch_refines (u : UTab) (cfg : Config) (now : Instant) (a : AtArgs) (s : SummaryArgs)
    (file file' : Bytes) (rs : List Record) (bos : List BlockOut) (d : Date) (t : Time)
    (hp : parseDoc file = .records rs bos) (hd : atDate a.date now.date = some d)
    (ht : atTime a now cfg = .ok t) (htw : t.wf = true)
    (hs : CleanSummary (s.text.getD [])) (hcr : file.getLast? ≠ some 13)
    (h : runCmd u cfg now (.switch a s) file = .ok file') :
    ∃ rs' bos' i r r1 sm, parseDoc file' = .records rs' bos' ∧ Spec.targetIdx rs d = some i ∧ rs[i]? = some r ∧
      Spec.CloseAt r t [] r1 ∧
      Spec.chosenSummary (s.text.map (·.map decodeGo)) s.resume s.resumeNth r1 none = some sm ∧
      Spec.Switch rs i t sm rs' :=
  KlogV.switch_refines u cfg now a s file file' rs bos d t hp hd ht htw hs hcr h

/-- the record `pause` acts on: today's, else yesterday's -/
def PauseTarget (rs : List Record) (today : Date) (i : Nat) : Prop :=
  Spec.targetIdx rs today = some i ∨
  (Spec.targetIdx rs today = none ∧ ∃ y, today.plusDays (-1) = some y ∧ Spec.targetIdx rs y = some i)

/-- `pause` without `--extend`, for EVERY script of clock readings: a pause entry of exactly the
captured whole minutes (C04.pause_invariant: the largest reading so far, never negative) is added
to the record with the open range, with the given summary and — unless `--no-tags` — the tags of
the open range's summary appended once; nothing else changes. -/
theorem pause_refines (u : UTab) (cfg : Config) (now : Instant) (summary : Option (List Bytes)) (noTags : Bool) (ticks : List Int)
    (file file' : Bytes) (rs : List Record) (bos : List BlockOut)
    (hp : parseDoc file = .records rs bos) (hs : CleanSummary (summary.getD [])) (hcr : file.getLast? ≠ some 13)
    (hu : u.isLetter '"' = false ∧ u.isLetter '\'' = false ∧ u.isLetter ' ' = false)
    (h : runCmd u cfg now (.pause summary noTags false ticks) file = .ok file') :
    ∃ rs' bos' i r oe, parseDoc file' = .records rs' bos' ∧ PauseTarget rs now.date i ∧ rs[i]? = some r ∧
      oe ∈ r.entries ∧ isOpen oe.val = true ∧
      Spec.PauseAppend rs i (Spec.captured ticks)
        (Spec.pauseSummary ((summary.getD []).map decodeGo)
          (if noTags then none else some (((summaryTags u oe.summary).map (fun (t : Tag) => t.print u)).intersperse [' ']).flatten)) rs' :=
  KlogV.pause_refines u cfg now summary noTags ticks file file' rs bos hp hs hcr hu h

/-- `pause --extend`, for every script of clock readings: the last non-positive duration entry of
the record decreases by exactly the captured minutes. -/
theorem pause_extend_refines (u : UTab) (cfg : Config) (now : Instant) (noTags : Bool) (ticks : List Int)
    (file file' : Bytes) (rs : List Record) (bos : List BlockOut)
    (hp : parseDoc file = .records rs bos) (hcr : file.getLast? ≠ some 13)
    (h : runCmd u cfg now (.pause none noTags true ticks) file = .ok file') :
    ∃ rs' bos' i, parseDoc file' = .records rs' bos' ∧ PauseTarget rs now.date i ∧
      Spec.PauseExtend rs i (Spec.captured ticks) rs' :=
  KlogV.pause_extend_refines u cfg now noTags ticks file file' rs bos hp hcr h

end KlogV.C04
