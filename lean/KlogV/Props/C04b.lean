/-
C04 (continued) — refinement of `start`, `stop`, `switch` and `pause` to the abstract semantics
(KlogV/Spec/AbstractCommands.lean).  Property theorems only (helper lemmas: KlogV/Lemmas/RefineB*.lean).
Three statements as first written were FALSE for the model (`start_refines`, `switch_refines`: a
resumed summary line ending in a carriage return; `pause_refines`: pathological Unicode tables); the
counterexamples are in the comments, the corrected statements are proved.
Hypotheses shared with `create`/`track` (see Props/C04.lean): the file does not end in a lone
carriage return (D13), dates of records to be created are calendar dates, summary lines given on
the command line contain no line feed, do not end in CR, and continuation lines are not blank-only
(all guaranteed by the CLI's argument decoders).
-/
import KlogV.Lemmas.RefineB
namespace KlogV.C04

/-- summary lines as typed: clean, and lines after the first are not blank-only
(definition: KlogV/Lemmas/RefineB2.lean) -/
abbrev CleanSummary (ls : List Bytes) : Prop := KlogV.CleanSummary ls

/-- the record `--resume`/`--resume-nth` look at: the target record, or the fresh record about to
be created (definition: KlogV/Lemmas/RefineB2.lean) -/
abbrev currentRecord (rs : List Record) (d : Date) (cfgShould : Option Int) : Record :=
  KlogV.currentRecord rs d cfgShould

/-
-- FALSE: `--resume` / `--resume-nth` take over the summary of an existing entry; if a line of that summary
-- ends in a carriage return (its line in the file ends in CR CR LF), the new entry is written with that CR
-- directly in front of the line ending and is read back WITHOUT it (cf. D13).
-- file = "2000-01-01\n    1h foo\r\r\n" (the entry's summary is ["foo\r"]), now = 2000-01-01 9:00,
-- `#eval runCmd u {} now (.start {} {resume := true}) file` = .ok "2000-01-01\n    1h foo\r\r\n    9:00 - ? foo\r\n":
-- the new open range has the summary ["foo"], but `Spec.chosenSummary … = some ["foo\r"]`, so `Spec.Start` fails.
theorem start_refines (u : UTab) (cfg : Config) (now : Instant) (a : AtArgs) (s : SummaryArgs)
    (file file' : Bytes) (rs : List Record) (bos : List BlockOut) (d : Date) (t : Time)
    (hp : parseDoc file = .records rs bos) (hd : atDate a.date now.date = some d)
    (ht : atTime a now cfg = .ok t) (htw : t.wf = true)
    (hs : CleanSummary (s.text.getD [])) (hcr : file.getLast? ≠ some 13)
    (hv : Spec.targetIdx rs d = none → d.valid = true)
    (h : runCmd u cfg now (.start a s) file = .ok file') :
    ∃ rs' bos' sm, parseDoc file' = .records rs' bos' ∧
      Spec.chosenSummary (s.text.map (·.map decodeGo)) s.resume s.resumeNth (currentRecord rs d cfg.should) (Spec.previousOf rs d) = some sm ∧
      Spec.Start rs d cfg.should t sm rs'
-/

/-- `start` (corrected: `hrcr` — when the summary is taken over from an existing entry (`--resume`,
`--resume-nth`), none of its lines ends in a carriage return): after a successful run the file holds
the old records plus ONE open range starting at the time the command determined (C17), with the
summary the flags select, at the end of the record for the date (created, with the configured
should-total, at its position when absent). -/
theorem start_refines (u : UTab) (cfg : Config) (now : Instant) (a : AtArgs) (s : SummaryArgs)
    (file file' : Bytes) (rs : List Record) (bos : List BlockOut) (d : Date) (t : Time)
    (hp : parseDoc file = .records rs bos) (hd : atDate a.date now.date = some d)
    (ht : atTime a now cfg = .ok t) (htw : t.wf = true)
    (hs : CleanSummary (s.text.getD [])) (hcr : file.getLast? ≠ some 13)
    (hv : Spec.targetIdx rs d = none → d.valid = true)
    (hrcr : s.text = none → ∀ sm, Spec.chosenSummary none s.resume s.resumeNth (currentRecord rs d cfg.should)
      (Spec.previousOf rs d) = some sm → ∀ l ∈ sm, l.getLast? ≠ some '\r')
    (h : runCmd u cfg now (.start a s) file = .ok file') :
    ∃ rs' bos' sm, parseDoc file' = .records rs' bos' ∧
      Spec.chosenSummary (s.text.map (·.map decodeGo)) s.resume s.resumeNth (currentRecord rs d cfg.should) (Spec.previousOf rs d) = some sm ∧
      Spec.Start rs d cfg.should t sm rs' :=
  KlogV.start_refines u cfg now a s file file' rs bos d t hp hd ht htw hs hcr hv hrcr h

/-- `start` is rejected when the record already has an open range, or when the summary flags
conflict / the entry to resume does not exist. -/
theorem start_rejected (u : UTab) (cfg : Config) (now : Instant) (a : AtArgs) (s : SummaryArgs)
    (file : Bytes) (rs : List Record) (bos : List BlockOut) (d : Date)
    (hp : parseDoc file = .records rs bos) (hd : atDate a.date now.date = some d)
    (hrej : (∃ i r, Spec.targetIdx rs d = some i ∧ rs[i]? = some r ∧ r.hasOpen = true) ∨
      Spec.chosenSummary (s.text.map (·.map decodeGo)) s.resume s.resumeNth (currentRecord rs d cfg.should) (Spec.previousOf rs d) = none) :
    ∀ f', runCmd u cfg now (.start a s) file ≠ .ok f' :=
  KlogV.start_rejected u cfg now a s file rs bos d hp hd hrej

/-- the record `stop` acts on and the time relative to it: the record for the date; or — only when
neither a date nor a time was given and there is no record for the date — the record of the day
before, with the time shifted by 24 hours (definition: KlogV/Lemmas/RefineB2.lean) -/
abbrev StopTarget (rs : List Record) (a : AtArgs) (d : Date) (t : Time) (i : Nat) (t' : Time) : Prop :=
  KlogV.StopTarget rs a d t i t'

/-- `stop`: the open range of the target record becomes a range ending at the given time, the
extra summary is appended; nothing else changes. -/
theorem stop_refines (u : UTab) (cfg : Config) (now : Instant) (a : AtArgs) (summary : Option (List Bytes))
    (file file' : Bytes) (rs : List Record) (bos : List BlockOut) (d : Date) (t : Time)
    (hp : parseDoc file = .records rs bos) (hd : atDate a.date now.date = some d)
    (ht : atTime a now cfg = .ok t) (htw : t.wf = true)
    (hs : CleanSummary (summary.getD [])) (hcr : file.getLast? ≠ some 13)
    (h : runCmd u cfg now (.stop a summary) file = .ok file') :
    ∃ rs' bos' i t', parseDoc file' = .records rs' bos' ∧ StopTarget rs a d t i t' ∧
      Spec.Stop rs i t' ((summary.getD []).map decodeGo) rs' :=
  KlogV.stop_refines u cfg now a summary file file' rs bos d t hp hd ht htw hs hcr h

/-- `stop` is rejected when there is nothing to stop or the end would be before the start. -/
theorem stop_rejected (u : UTab) (cfg : Config) (now : Instant) (a : AtArgs) (summary : Option (List Bytes))
    (file : Bytes) (rs : List Record) (bos : List BlockOut) (d : Date) (t : Time) (i : Nat) (r : Record)
    (hp : parseDoc file = .records rs bos) (hd : atDate a.date now.date = some d) (ht : atTime a now cfg = .ok t)
    (hi : Spec.targetIdx rs d = some i) (hr : rs[i]? = some r)
    (hrej : r.hasOpen = false ∨ ∃ pre post s sp x sm, r.entries = pre ++ ⟨.openRange s sp x, sm⟩ :: post ∧
      (∀ p ∈ pre, isOpen p.val = false) ∧ t.offset < s.offset) :
    ∀ f', runCmd u cfg now (.stop a summary) file ≠ .ok f' :=
  KlogV.stop_rejected u cfg now a summary file rs bos d t i r hp hd ht hi hr hrej

/-
-- FALSE: as `start_refines`: a resumed summary line ending in a carriage return loses it.
-- file = "2000-01-01\n    8:00 - ? foo\r\r\n", now = 2000-01-01 9:00,
-- `#eval runCmd u {} now (.switch {} {resume := true}) file` =
--   .ok "2000-01-01\n    8:00 - 9:00 foo\r\r\n    9:00 - ? foo\r\n": the closed entry keeps ["foo\r"], the new open range
-- has ["foo"], but `Spec.chosenSummary … r1 none = some ["foo\r"]`.
theorem switch_refines (u : UTab) (cfg : Config) (now : Instant) (a : AtArgs) (s : SummaryArgs)
    (file file' : Bytes) (rs : List Record) (bos : List BlockOut) (d : Date) (t : Time)
    (hp : parseDoc file = .records rs bos) (hd : atDate a.date now.date = some d)
    (ht : atTime a now cfg = .ok t) (htw : t.wf = true)
    (hs : CleanSummary (s.text.getD [])) (hcr : file.getLast? ≠ some 13)
    (h : runCmd u cfg now (.switch a s) file = .ok file') :
    ∃ rs' bos' i r r1 sm, parseDoc file' = .records rs' bos' ∧ Spec.targetIdx rs d = some i ∧ rs[i]? = some r ∧
      Spec.CloseAt r t [] r1 ∧
      Spec.chosenSummary (s.text.map (·.map decodeGo)) s.resume s.resumeNth r1 none = some sm ∧
      Spec.Switch rs i t sm rs'
-/

/-- `switch` (corrected: `hrcr` — a summary taken over from an entry of the record has no line ending
in a carriage return): stop at the time, then start at the same time on the same record; if either
half is rejected nothing is written (C05.no_partial_multistep). -/
theorem switch_refines (u : UTab) (cfg : Config) (now : Instant) (a : AtArgs) (s : SummaryArgs)
    (file file' : Bytes) (rs : List Record) (bos : List BlockOut) (d : Date) (t : Time)
    (hp : parseDoc file = .records rs bos) (hd : atDate a.date now.date = some d)
    (ht : atTime a now cfg = .ok t) (htw : t.wf = true)
    (hs : CleanSummary (s.text.getD [])) (hcr : file.getLast? ≠ some 13)
    (hrcr : s.text = none → ∀ i r sm, Spec.targetIdx rs d = some i → rs[i]? = some r →
      Spec.chosenSummary none s.resume s.resumeNth r none = some sm → ∀ l ∈ sm, l.getLast? ≠ some '\r')
    (h : runCmd u cfg now (.switch a s) file = .ok file') :
    ∃ rs' bos' i r r1 sm, parseDoc file' = .records rs' bos' ∧ Spec.targetIdx rs d = some i ∧ rs[i]? = some r ∧
      Spec.CloseAt r t [] r1 ∧
      Spec.chosenSummary (s.text.map (·.map decodeGo)) s.resume s.resumeNth r1 none = some sm ∧
      Spec.Switch rs i t sm rs' :=
  KlogV.switch_refines u cfg now a s file file' rs bos d t hp hd ht htw hs hcr hrcr h

/-- the record `pause` acts on: today's, else yesterday's (definition: KlogV/Lemmas/RefineB2.lean) -/
abbrev PauseTarget (rs : List Record) (today : Date) (i : Nat) : Prop := KlogV.PauseTarget rs today i

/-
-- FALSE: for a table `u` whose case folding yields a line break character, or in which the carriage return
-- counts as a letter (both satisfy `hu`; the tables the driver dumps from Go's `unicode` package do neither),
-- the tags appended to the pause entry break the line / lose a character:
-- u1 := ⟨Char.isAlpha, fun _ => '\n'⟩, file = "2000-01-01\n    8:00 - ? foo #ab\n":
-- `#eval runCmd u1 {} now (.pause none false false []) file` = .ok "2000-01-01\n    8:00 - ? foo #ab\n    -0m #\n\n\n"
--   (pause summary ["#"], but the printed tags are "#\n\n");
-- u2 := ⟨fun c => c.isAlpha || c == '\r', id⟩, file = "2000-01-01\n    8:00 - ? foo #ab\r\r\n":
-- the result is "…\n    -0m #ab\r\n" (pause summary ["#ab"], but the printed tags are "#ab\r").
theorem pause_refines (u : UTab) (cfg : Config) (now : Instant) (summary : Option (List Bytes)) (noTags : Bool) (ticks : List Int)
    (file file' : Bytes) (rs : List Record) (bos : List BlockOut)
    (hp : parseDoc file = .records rs bos) (hs : CleanSummary (summary.getD [])) (hcr : file.getLast? ≠ some 13)
    (hu : u.isLetter '"' = false ∧ u.isLetter '\'' = false ∧ u.isLetter ' ' = false)
    (h : runCmd u cfg now (.pause summary noTags false ticks) file = .ok file') :
    ∃ rs' bos' i r oe, parseDoc file' = .records rs' bos' ∧ PauseTarget rs now.date i ∧ rs[i]? = some r ∧
      oe ∈ r.entries ∧ isOpen oe.val = true ∧
      Spec.PauseAppend rs i (Spec.captured ticks)
        (Spec.pauseSummary ((summary.getD []).map decodeGo)
          (if noTags then none else some (((summaryTags u oe.summary).map (fun (t : Tag) => t.print u)).intersperse [' ']).flatten)) rs'
-/

/-- `pause` without `--extend`, for EVERY script of clock readings (corrected: `hu2` — when tags are
appended, the case folding of `u` yields neither a line feed nor a carriage return, and the carriage
return is not a letter): a pause entry of exactly the captured whole minutes (C04.pause_invariant:
the largest reading so far, never negative) is added to the record with the open range, with the
given summary and — unless `--no-tags` — the tags of the open range's summary appended once;
nothing else changes. -/
theorem pause_refines (u : UTab) (cfg : Config) (now : Instant) (summary : Option (List Bytes)) (noTags : Bool) (ticks : List Int)
    (file file' : Bytes) (rs : List Record) (bos : List BlockOut)
    (hp : parseDoc file = .records rs bos) (hs : CleanSummary (summary.getD [])) (hcr : file.getLast? ≠ some 13)
    (hu : u.isLetter '"' = false ∧ u.isLetter '\'' = false ∧ u.isLetter ' ' = false)
    (hu2 : noTags = false → u.isLetter '\r' = false ∧ ∀ c, u.lower c ≠ '\n' ∧ u.lower c ≠ '\r')
    (h : runCmd u cfg now (.pause summary noTags false ticks) file = .ok file') :
    ∃ rs' bos' i r oe, parseDoc file' = .records rs' bos' ∧ PauseTarget rs now.date i ∧ rs[i]? = some r ∧
      oe ∈ r.entries ∧ isOpen oe.val = true ∧
      Spec.PauseAppend rs i (Spec.captured ticks)
        (Spec.pauseSummary ((summary.getD []).map decodeGo)
          (if noTags then none else some (((summaryTags u oe.summary).map (fun (t : Tag) => t.print u)).intersperse [' ']).flatten)) rs' :=
  KlogV.pause_refines u cfg now summary noTags ticks file file' rs bos hp hs hcr hu hu2 h

/-- `pause --extend`, for every script of clock readings: the last non-positive duration entry of
the record decreases by exactly the captured minutes. -/
theorem pause_extend_refines (u : UTab) (cfg : Config) (now : Instant) (noTags : Bool) (ticks : List Int)
    (file file' : Bytes) (rs : List Record) (bos : List BlockOut)
    (hp : parseDoc file = .records rs bos) (hcr : file.getLast? ≠ some 13)
    (h : runCmd u cfg now (.pause none noTags true ticks) file = .ok file') :
    ∃ rs' bos' i, parseDoc file' = .records rs' bos' ∧ PauseTarget rs now.date i ∧
      Spec.PauseExtend rs i (Spec.captured ticks) rs' :=
  KlogV.pause_extend_refines u cfg now noTags ticks file file' rs bos hp hcr h

end KlogV.C04
