/-
TRANSLATOR TIE for the regular expressions — group "Tags" (DESIGN.md §0.9).  `klogv extract` parses the Go sources of
the code under test on every run, translates every `regexp.MustCompile(<literal>)` into a term of
`KlogV.Rx.Re` (KlogV/Gen/Regexes.lean) — and these theorems, re-checked on every run, say that each
denotes the same MARKED language (the words with the capture-group boundaries made visible, so also
the same groups) as the expression the model was written against (KlogV/Regex/Expect.lean), has
the same anchors, and uses no construct outside the translated fragment.  The check is the verified
equivalence checker `Rx.equivCheck` (KlogV/Regex/Equiv.lean), evaluated by the kernel; its soundness
theorem turns `= true` into equality of the languages under every interpretation of `\p{L}`, `\p{Zs}`.
A rewrite of a pattern that keeps language and groups (`\d` for `[0-9]`, `x{2}` for `xx`, …) keeps
these theorems; any other change breaks exactly the theorem of that pattern, and
`Rx.equivWitness` then yields a shortest word that only one of the two matches.
-/
import KlogV.Props.Rx.Tie
import KlogV.Gen.Regexes
set_option Elab.async false
namespace KlogV.Regexes
open KlogV.Rx

theorem hashTag : tied Gen.allRegexes Expect.hashTag false false = true := by decide +kernel
theorem unquotedValue : tied Gen.allRegexes Expect.unquotedValue true true = true := by decide +kernel

end KlogV.Regexes
