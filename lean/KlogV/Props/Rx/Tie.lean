/-
Shared definitions of the regular-expression ties (DESIGN.md §0.9).
A pattern of the Go code is looked up by its LANGUAGE, not by its name: renaming or moving a pattern,
or rewriting it into an equivalent one, keeps the tie; changing what it matches, where a group sits,
or an anchor, breaks it.
-/
import KlogV.Regex.Equiv
import KlogV.Regex.Expect
namespace KlogV.Regexes
open KlogV.Rx

/-- an extracted pattern: name (for diagnostics), expression, (anchored at start, anchored at end),
constructs that could not be translated -/
abbrev Extracted := String × Re × (Bool × Bool) × List String

/-- some pattern of the code is fully translated, has these anchors and the same MARKED language as `expect` -/
def tied (all : List Extracted) (expect : Re) (a e : Bool) : Bool :=
  all.any fun g => g.2.2.1 == (a, e) && g.2.2.2.isEmpty && equivCheck 2000 (mark g.2.1) (mark expect)

/-- what a tie means: the code contains a pattern that, under every interpretation of the named classes,
matches the same words as the expected one, capture-group boundaries included -/
theorem tie_sound {all : List Extracted} {expect : Re} {a e : Bool} (h : tied all expect a e = true) :
    ∃ g ∈ all, g.2.2.1 = (a, e) ∧ g.2.2.2 = [] ∧
      ∀ (env : Env) (w : List Sym), Matches env (mark g.2.1) w ↔ Matches env (mark expect) w := by
  unfold tied at h
  rw [List.any_eq_true] at h
  obtain ⟨g, hg, hc⟩ := h
  simp only [Bool.and_eq_true, beq_iff_eq, List.isEmpty_iff] at hc
  exact ⟨g, hg, hc.1.1, hc.1.2, equivCheck_sound 2000 _ _ hc.2⟩

end KlogV.Regexes
