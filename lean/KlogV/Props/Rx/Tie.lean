/-
Shared definitions of the regular-expression ties (see KlogV/Props/Rx/README in DESIGN.md §0.9).
-/
import KlogV.Regex.Equiv
import KlogV.Regex.Expect
namespace KlogV.Regexes
open KlogV.Rx

/-- same marked language, same anchors, nothing untranslatable -/
abbrev Tie (gen : Re) (anch : Bool × Bool) (uns : List String) (expect : Re) (a e : Bool) : Prop :=
  equivCheck 2000 (mark gen) (mark expect) = true ∧ anch = (a, e) ∧ uns = []

/-- what a tie means: under every interpretation of the named classes the extracted and the expected
expression match the same words, capture-group boundaries included -/
theorem tie_sound {gen expect : Re} {anch uns a e} (h : Tie gen anch uns expect a e) :
    ∀ (env : Env) (w : List Sym), Matches env (mark gen) w ↔ Matches env (mark expect) w :=
  equivCheck_sound 2000 _ _ h.1

end KlogV.Regexes
