/-
THE MODEL'S PARSING FUNCTIONS vs. THE EXPECTED REGULAR EXPRESSIONS (KlogV/Regex/Expect.lean).
The translator tie (KlogV/Props/Rx/Values.lean, …) says that the patterns in the Go source denote the same marked
languages as the hand-written terms `Rx.Expect.*`.  These theorems are the remaining link: every hand-written,
character-level matcher of the model accepts a string's SHAPE exactly when the corresponding expression matches it
(`*_shape`: the language, as an explicit condition on the string), reads the substrings that the capture groups
delimit (`*_marked`: every word of the marked language, with `openSym i` / `closeSym i` around group `i`;
`*_groups`: over a given string there is only one such word), and computes the stated function of those
substrings (`*_parse_matches`, `*_on_shape`, …).
`codes s` is the word of code points of `s`; `rxEnv u` interprets `\p{L}` by the model's Unicode table and `\p{Zs}`
by `isZs`.  Theorems without a named class hold for every interpretation `env`.
Property theorems only (helper lemmas: KlogV/Lemmas/RegexModel1 … RegexModel7.lean).
-/
import KlogV.Lemmas.RegexModel2
import KlogV.Lemmas.RegexModel3
import KlogV.Lemmas.RegexModel4
import KlogV.Lemmas.RegexModel5
import KlogV.Lemmas.RegexModel6
import KlogV.Lemmas.RegexModel7
namespace KlogV.Regexes
open KlogV.Rx

/-! ## 1. `^(\d{4})S(\d{2})S(\d{2})$` (`S` = the class of minus and slash) and `Date.parse` -/

theorem date_shape (env : Env) (s : List Char) :
    Matches env Expect.date (codes s) ↔
      ∃ y1 y2 y3 y4 a m1 m2 b d1 d2, s = [y1, y2, y3, y4, a, m1, m2, b, d1, d2] ∧
        [y1, y2, y3, y4, m1, m2, d1, d2].all isDigit = true ∧ (a = '-' ∨ a = '/') ∧ (b = '-' ∨ b = '/') :=
  RxM.date_shape s

/-- groups 1, 2, 3 are the year, month and day digits -/
theorem date_marked (env : Env) (m : List Nat) :
    Matches env (mark Expect.date) m ↔
      ∃ y1 y2 y3 y4 a m1 m2 b d1 d2 : Char,
        [y1, y2, y3, y4, m1, m2, d1, d2].all isDigit = true ∧ (a = '-' ∨ a = '/') ∧ (b = '-' ∨ b = '/') ∧
        m = openSym 1 :: codes [y1, y2, y3, y4] ++ closeSym 1 :: a.toNat ::
            openSym 2 :: codes [m1, m2] ++ closeSym 2 :: b.toNat ::
            openSym 3 :: codes [d1, d2] ++ [closeSym 3] :=
  RxM.date_marked m

/-- … and over a given string the marked word (hence what each group captures) is unique -/
theorem date_groups (env : Env) (y1 y2 y3 y4 a m1 m2 b d1 d2 : Char) (m : List Nat)
    (hm : Matches env (mark Expect.date) m) (he : erase m = codes [y1, y2, y3, y4, a, m1, m2, b, d1, d2]) :
    m = openSym 1 :: codes [y1, y2, y3, y4] ++ closeSym 1 :: a.toNat ::
        openSym 2 :: codes [m1, m2] ++ closeSym 2 :: b.toNat ::
        openSym 3 :: codes [d1, d2] ++ [closeSym 3] :=
  RxM.date_groups y1 y2 y3 y4 a m1 m2 b d1 d2 m hm he

theorem date_parse_matches (env : Env) (s : List Char) (d : Date) (h : Date.parse s = some d) :
    Matches env Expect.date (codes s) :=
  RxM.date_parse_matches h

theorem date_parse_none_of_no_match (env : Env) (s : List Char) (h : ¬ Matches env Expect.date (codes s)) :
    Date.parse s = none :=
  RxM.date_parse_no_match h

/-- on a matching string: the Go code rejects mixed separators after the match, then validates the civil date -/
theorem date_parse_on_shape (y1 y2 y3 y4 a m1 m2 b d1 d2 : Char)
    (hdig : [y1, y2, y3, y4, m1, m2, d1, d2].all isDigit = true) (ha : a = '-' ∨ a = '/') (hb : b = '-' ∨ b = '/') :
    Date.parse [y1, y2, y3, y4, a, m1, m2, b, d1, d2] =
      if a = b ∧ Date.valid ⟨digitsVal [y1, y2, y3, y4], digitsVal [m1, m2], digitsVal [d1, d2], a == '-'⟩ = true
      then some ⟨digitsVal [y1, y2, y3, y4], digitsVal [m1, m2], digitsVal [d1, d2], a == '-'⟩ else none :=
  RxM.date_parse_shape y1 y2 y3 y4 a m1 m2 b d1 d2 hdig ha hb

/-! ## 2. `^(<)?(\d{1,2}):(\d{2})(am|pm)?(>)?$` and `Time.parse`
(`Time.apChars none = []`, `Time.apChars (some false) = "am"`, `Time.apChars (some true) = "pm"`) -/

theorem time_shape (env : Env) (s : List Char) :
    Matches env Expect.time (codes s) ↔
      ∃ (lt : Bool) (hd : List Char) (m1 m2 : Char) (ap : Option Bool) (gt : Bool),
        s = (if lt then ['<'] else []) ++ hd ++ [':'] ++ [m1, m2] ++ Time.apChars ap ++ (if gt then ['>'] else []) ∧
        (hd.length = 1 ∨ hd.length = 2) ∧ hd.all isDigit = true ∧ isDigit m1 = true ∧ isDigit m2 = true :=
  RxM.time_shape s

theorem time_marked (env : Env) (m : List Nat) :
    Matches env (mark Expect.time) m ↔
      ∃ (lt : Bool) (hd : List Char) (m1 m2 : Char) (ap : Option Bool) (gt : Bool),
        (hd.length = 1 ∨ hd.length = 2) ∧ hd.all isDigit = true ∧ isDigit m1 = true ∧ isDigit m2 = true ∧
        m = (if lt then [openSym 1, '<'.toNat, closeSym 1] else []) ++ openSym 2 :: codes hd ++ closeSym 2 :: ':'.toNat ::
            openSym 3 :: codes [m1, m2] ++ closeSym 3 ::
            ((if ap.isSome then openSym 4 :: codes (Time.apChars ap) ++ [closeSym 4] else []) ++
             (if gt then [openSym 5, '>'.toNat, closeSym 5] else [])) :=
  RxM.time_marked m

theorem time_groups (env : Env) (lt : Bool) (hd : List Char) (m1 m2 : Char) (ap : Option Bool) (gt : Bool) (m : List Nat)
    (hlen : hd.length = 1 ∨ hd.length = 2) (hdig : hd.all isDigit = true)
    (hm : Matches env (mark Expect.time) m)
    (he : erase m = codes ((if lt then ['<'] else []) ++ hd ++ [':'] ++ [m1, m2] ++ Time.apChars ap ++ (if gt then ['>'] else []))) :
    m = (if lt then [openSym 1, '<'.toNat, closeSym 1] else []) ++ openSym 2 :: codes hd ++ closeSym 2 :: ':'.toNat ::
          openSym 3 :: codes [m1, m2] ++ closeSym 3 ::
          ((if ap.isSome then openSym 4 :: codes (Time.apChars ap) ++ [closeSym 4] else []) ++
           (if gt then [openSym 5, '>'.toNat, closeSym 5] else [])) :=
  RxM.time_groups lt hd m1 m2 ap gt m hlen hdig hm he

theorem time_parse_matches (env : Env) (s : List Char) (t : Time) (h : Time.parse s = some t) :
    Matches env Expect.time (codes s) :=
  RxM.time_parse_matches h

theorem time_parse_none_of_no_match (env : Env) (s : List Char) (h : ¬ Matches env Expect.time (codes s)) :
    Time.parse s = none :=
  RxM.time_parse_no_match h

/-- on a matching string `Time.parse` is `Time.ofParts` (the value part of `Time.parse`, KlogV/Lemmas/RegexModel3.lean)
of the five captured pieces -/
theorem time_parse_on_shape (lt : Bool) (hd : List Char) (m1 m2 : Char) (ap : Option Bool) (gt : Bool)
    (hlen : hd.length = 1 ∨ hd.length = 2) (hdig : hd.all isDigit = true) (hm1 : isDigit m1 = true) (hm2 : isDigit m2 = true) :
    Time.parse ((if lt then ['<'] else []) ++ hd ++ [':'] ++ [m1, m2] ++ Time.apChars ap ++ (if gt then ['>'] else []))
      = Time.ofParts lt hd [m1, m2] ap gt :=
  RxM.time_parse_shape lt hd m1 m2 ap gt hlen hdig hm1 hm2

/-! ## 3. `^([-+])?((\d+)h)?((\d+)m)?$` and `Dur.parse`
The pattern also matches the empty string and a lone sign; `hd`/`md` are the group-3/group-5 digit strings
(`[]` when the group does not take part). -/

theorem duration_shape (env : Env) (s : List Char) :
    Matches env Expect.duration (codes s) ↔
      ∃ sg hd md : List Char,
        s = sg ++ (if hd.isEmpty then [] else hd ++ ['h']) ++ (if md.isEmpty then [] else md ++ ['m']) ∧
        (sg = [] ∨ sg = ['-'] ∨ sg = ['+']) ∧ hd.all isDigit = true ∧ md.all isDigit = true :=
  RxM.duration_shape s

theorem duration_marked (env : Env) (m : List Nat) :
    Matches env (mark Expect.duration) m ↔
      ∃ sg hd md : List Char,
        (sg = [] ∨ sg = ['-'] ∨ sg = ['+']) ∧ hd.all isDigit = true ∧ md.all isDigit = true ∧
        m = (if sg.isEmpty then [] else openSym 1 :: codes sg ++ [closeSym 1]) ++
            (if hd.isEmpty then [] else openSym 2 :: openSym 3 :: codes hd ++ [closeSym 3, 'h'.toNat, closeSym 2]) ++
            (if md.isEmpty then [] else openSym 4 :: openSym 5 :: codes md ++ [closeSym 5, 'm'.toNat, closeSym 4]) :=
  RxM.duration_marked m

theorem duration_groups (env : Env) (sg hd md : List Char) (m : List Nat) (hsg : sg = [] ∨ sg = ['-'] ∨ sg = ['+'])
    (hh : hd.all isDigit = true) (hmd : md.all isDigit = true)
    (hm : Matches env (mark Expect.duration) m)
    (he : erase m = codes (sg ++ (if hd.isEmpty then [] else hd ++ ['h']) ++ (if md.isEmpty then [] else md ++ ['m']))) :
    m = (if sg.isEmpty then [] else openSym 1 :: codes sg ++ [closeSym 1]) ++
        (if hd.isEmpty then [] else openSym 2 :: openSym 3 :: codes hd ++ [closeSym 3, 'h'.toNat, closeSym 2]) ++
        (if md.isEmpty then [] else openSym 4 :: openSym 5 :: codes md ++ [closeSym 5, 'm'.toNat, closeSym 4]) :=
  RxM.duration_groups sg hd md m hsg hh hmd hm he

theorem duration_parse_matches (env : Env) (s : List Char) (h : Dur.parse s ≠ .err) :
    Matches env Expect.duration (codes s) :=
  RxM.duration_parse_matches h

theorem duration_parse_err_of_no_match (env : Env) (s : List Char) (h : ¬ Matches env Expect.duration (codes s)) :
    Dur.parse s = .err :=
  RxM.duration_parse_no_match h

/-- on a matching string `Dur.parse` is `Dur.ofParts` (the value part of `Dur.parse`, KlogV/Lemmas/RegexModel4.lean)
of the captured pieces -/
theorem duration_parse_on_shape (sg hd md : List Char) (hsg : sg = [] ∨ sg = ['-'] ∨ sg = ['+'])
    (hh : hd.all isDigit = true) (hm : md.all isDigit = true) :
    Dur.parse (sg ++ (if hd.isEmpty then [] else hd ++ ['h']) ++ (if md.isEmpty then [] else md ++ ['m'])) =
      Dur.ofParts sg hd md :=
  RxM.duration_parse_shape sg hd md hsg hh hm

/-- exactly the cases the Go code rejects after the match: no amount at all; or hours present and minutes ≥ 60
(both numbers within `int`, otherwise Go panics first) -/
theorem duration_rejected_iff (sg hd md : List Char) :
    Dur.ofParts sg hd md = .err ↔
      (hd = [] ∧ md = []) ∨ (hd ≠ [] ∧ (digitsVal hd : Int) ≤ maxInt ∧ (digitsVal md : Int) ≤ maxInt ∧ 60 ≤ digitsVal md) :=
  RxM.duration_err_iff sg hd md

theorem duration_value (sg hd md : List Char) (d : Dur) (hsg : sg = [] ∨ sg = ['-'] ∨ sg = ['+'])
    (h : Dur.ofParts sg hd md = .ok d) :
    d.mins = (if sg = ['-'] then -1 else 1) * ((digitsVal hd * 60 + digitsVal md : Nat) : Int) ∧
    d.forcePlus = (sg == ['+']) ∧
    d.zeroSign = (if digitsVal hd * 60 + digitsVal md = 0 ∧ sg ≠ [] then (if sg = ['-'] then -1 else 1) else 0) :=
  RxM.duration_value sg hd md d hsg h

/-! ## 4. `^\d{4}$`, `^\d{4}-\d{2}$`, `^\d{4}-Q\d$`, `^\d{4}-W\d{1,2}$` and `periodFromPattern` / `weekFromString` -/

theorem year_shape (env : Env) (s : List Char) :
    Matches env Expect.year (codes s) ↔
      ∃ y1 y2 y3 y4, s = [y1, y2, y3, y4] ∧ [y1, y2, y3, y4].all isDigit = true :=
  RxM.year_shape s

theorem month_shape (env : Env) (s : List Char) :
    Matches env Expect.month (codes s) ↔
      ∃ y1 y2 y3 y4 m1 m2, s = [y1, y2, y3, y4, '-', m1, m2] ∧ [y1, y2, y3, y4, m1, m2].all isDigit = true :=
  RxM.month_shape s

theorem quarter_shape (env : Env) (s : List Char) :
    Matches env Expect.quarter (codes s) ↔
      ∃ y1 y2 y3 y4 q, s = [y1, y2, y3, y4, '-', 'Q', q] ∧ [y1, y2, y3, y4, q].all isDigit = true :=
  RxM.quarter_shape s

theorem week_shape (env : Env) (s : List Char) :
    Matches env Expect.week (codes s) ↔
      ∃ y1 y2 y3 y4 ws, s = y1 :: y2 :: y3 :: y4 :: '-' :: 'W' :: ws ∧ [y1, y2, y3, y4].all isDigit = true ∧
        ws.all isDigit = true ∧ (ws.length = 1 ∨ ws.length = 2) :=
  RxM.week_shape s

/-- whatever `periodFromPattern` does not refuse (a period, or a Go panic) matches one of the four patterns -/
theorem period_matches (env : Env) (s : List Char) (h : periodFromPattern s ≠ .err) :
    Matches env Expect.year (codes s) ∨ Matches env Expect.month (codes s) ∨
      Matches env Expect.quarter (codes s) ∨ Matches env Expect.week (codes s) :=
  RxM.period_matches h

theorem period_ok_matches (env : Env) (s : List Char) (p : Period) (h : periodFromPattern s = .ok p) :
    Matches env Expect.year (codes s) ∨ Matches env Expect.month (codes s) ∨
      Matches env Expect.quarter (codes s) ∨ Matches env Expect.week (codes s) :=
  RxM.period_ok_matches h

theorem period_err_of_no_match (env : Env) (s : List Char)
    (hy : ¬ Matches env Expect.year (codes s)) (hm : ¬ Matches env Expect.month (codes s))
    (hq : ¬ Matches env Expect.quarter (codes s)) (hw : ¬ Matches env Expect.week (codes s)) :
    periodFromPattern s = .err :=
  RxM.period_no_match hy hm hq hw

theorem week_matches (env : Env) (s : List Char) (h : weekFromString s ≠ .err) : Matches env Expect.week (codes s) :=
  RxM.week_matches h

theorem week_err_of_no_match (env : Env) (s : List Char) (hw : ¬ Matches env Expect.week (codes s)) :
    weekFromString s = .err :=
  RxM.week_no_match hw

/-- what the four stages compute on their shapes (the shapes exclude one another) -/
theorem period_on_year (y1 y2 y3 y4 : Char) (hd : [y1, y2, y3, y4].all isDigit = true) :
    periodFromPattern [y1, y2, y3, y4] = .ok (yearPeriod ⟨digitsVal [y1, y2, y3, y4], 1, 1, true⟩) :=
  RxM.period_year y1 y2 y3 y4 hd

theorem period_on_month (y1 y2 y3 y4 m1 m2 : Char) (hd : [y1, y2, y3, y4, m1, m2].all isDigit = true) :
    periodFromPattern [y1, y2, y3, y4, '-', m1, m2] =
      match mkDate (digitsVal [y1, y2, y3, y4]) (digitsVal [m1, m2]) 1 with
      | some d => .ok (monthPeriod d)
      | none => .err :=
  RxM.period_month y1 y2 y3 y4 m1 m2 hd

theorem period_on_quarter (y1 y2 y3 y4 q : Char) (hd : [y1, y2, y3, y4, q].all isDigit = true) :
    periodFromPattern [y1, y2, y3, y4, '-', 'Q', q] =
      if 1 ≤ digitVal q ∧ digitVal q ≤ 4 then
        .ok (quarterPeriod ⟨digitsVal [y1, y2, y3, y4], digitVal q * 3, 1, true⟩)
      else .err :=
  RxM.period_quarter y1 y2 y3 y4 q hd

theorem period_on_week (y1 y2 y3 y4 : Char) (ws : List Char) :
    periodFromPattern (y1 :: y2 :: y3 :: y4 :: '-' :: 'W' :: ws) =
      match weekFromString (y1 :: y2 :: y3 :: y4 :: '-' :: 'W' :: ws) with
      | .ok d => (match weekPeriod d with | some p => .ok p | none => .panic)
      | .err => .err
      | .panic => .panic :=
  RxM.period_week y1 y2 y3 y4 ws

/-! ## 5. `^[\p{Zs}\t]` (start anchor only) and `okRecordSummaryLine`; `^[\p{Zs}\t]*$` and `okEntrySummaryCont` -/

theorem recordSummaryLineStart_shape (u : UTab) (s : List Char) :
    Matches (rxEnv u) Expect.recordSummaryLineStart (codes s) ↔ ∃ c, s = [c] ∧ isZsTab c = true :=
  RxM.recordStart_shape u s

theorem recordSummaryLine_link (u : UTab) (l : List Char) (hl : l ≠ []) :
    okRecordSummaryLine l = false ↔
      ∃ c rest, l = c :: rest ∧ Matches (rxEnv u) Expect.recordSummaryLineStart [c.toNat] :=
  RxM.recordStart_link u l hl

/-- Go rejects the empty line by a separate test (`len(l) == 0`) -/
theorem recordSummaryLine_empty : okRecordSummaryLine [] = false := rfl

/-- the same, with "some prefix of the line matches" for the pattern that is anchored at the start only -/
theorem recordSummaryLine_prefix (u : UTab) (l : List Char) :
    okRecordSummaryLine l = true ↔
      l ≠ [] ∧ ¬ ∃ p r, l = p ++ r ∧ Matches (rxEnv u) Expect.recordSummaryLineStart (codes p) :=
  RxM.recordStart_prefix u l

theorem blankLine_shape (u : UTab) (s : List Char) :
    Matches (rxEnv u) Expect.blankLine (codes s) ↔ s.all isZsTab = true :=
  RxM.blankLine_shape u s

theorem entrySummaryLine_link (u : UTab) (l : List Char) :
    okEntrySummaryCont l = true ↔ l ≠ [] ∧ ¬ Matches (rxEnv u) Expect.blankLine (codes l) :=
  RxM.blankLine_link u l

/-- the empty line matches the pattern as well, so for this pattern Go's separate `len(l) == 0` test is redundant -/
theorem entrySummaryLine_link_iff (u : UTab) (l : List Char) :
    okEntrySummaryCont l = true ↔ ¬ Matches (rxEnv u) Expect.blankLine (codes l) :=
  RxM.blankLine_link' u l

/-! ## 6. `^[\p{L}\d_-]+$` and `isUnquotedValue` (used by `Tag.print`) -/

theorem unquotedValue_shape (u : UTab) (s : List Char) :
    Matches (rxEnv u) Expect.unquotedValue (codes s) ↔
      s ≠ [] ∧ ∀ c ∈ s, u.isLetter c = true ∨ isDigit c = true ∨ c = '_' ∨ c = '-' :=
  RxM.unquoted_shape u s

theorem unquotedValue_link (u : UTab) (v : List Char) :
    isUnquotedValue u v = true ↔ Matches (rxEnv u) Expect.unquotedValue (codes v) :=
  RxM.unquoted_link u v

/-! ## 7. `^([ \t]*)[^ \t]+` (start anchor only) and `replaceFirstToken` (the reconciler's `ExtendPause`) -/

theorem pauseValue_shape (env : Env) (s : List Char) :
    Matches env Expect.pauseValue (codes s) ↔
      ∃ b t, s = b ++ t ∧ (∀ c ∈ b, isSpTab c = true) ∧ t ≠ [] ∧ ∀ c ∈ t, isSpTab c = false :=
  RxM.pauseValue_shape s

/-- the prefixes of a line that the pattern matches: ALL leading blanks, then a non-empty prefix of the first run of non-blanks -/
theorem pauseValue_prefixes (env : Env) (l p : List Char) :
    (p <+: l ∧ Matches env Expect.pauseValue (codes p)) ↔
      ∃ t, t ≠ [] ∧ t <+: (l.dropWhile isSpTab).takeWhile (fun c => !isSpTab c) ∧ p = l.takeWhile isSpTab ++ t :=
  RxM.pauseValue_prefixes l p

/-- the greedy match is the longest one: all leading blanks and the whole first run of non-blanks -/
theorem pauseValue_longest (env : Env) (l : List Char) (h : l.dropWhile isSpTab ≠ []) :
    l.takeWhile isSpTab ++ (l.dropWhile isSpTab).takeWhile (fun c => !isSpTab c) <+: l ∧
    Matches env Expect.pauseValue (codes (l.takeWhile isSpTab ++ (l.dropWhile isSpTab).takeWhile (fun c => !isSpTab c))) ∧
    ∀ p', p' <+: l → Matches env Expect.pauseValue (codes p') →
      p'.length ≤ (l.takeWhile isSpTab ++ (l.dropWhile isSpTab).takeWhile (fun c => !isSpTab c)).length :=
  RxM.pauseValue_longest l h

theorem pauseValue_no_match (env : Env) (l : List Char) (h : l.dropWhile isSpTab = []) :
    ¬ ∃ p, p <+: l ∧ Matches env Expect.pauseValue (codes p) :=
  RxM.pauseValue_no_match l h

/-- group 1 of a match is its run of leading blanks; the marked word over a given string is unique -/
theorem pauseValue_marked (env : Env) (p : List Char) (m : List Nat) :
    (Matches env (mark Expect.pauseValue) m ∧ erase m = codes p) ↔
      (Matches env Expect.pauseValue (codes p) ∧
        m = openSym 1 :: codes (p.takeWhile isSpTab) ++ closeSym 1 :: codes (p.dropWhile isSpTab)) :=
  RxM.pauseValue_marked p m

/-- the reconciler's lines are byte strings; blanks are ASCII, so the same holds byte-wise (a byte `b` as the symbol `b.toNat`) -/
theorem pauseValue_bytes_shape (env : Env) (p : Bytes) :
    Matches env Expect.pauseValue (p.map UInt8.toNat) ↔
      ∃ b t, p = b ++ t ∧ (∀ x ∈ b, isBlankByte x = true) ∧ t ≠ [] ∧ ∀ x ∈ t, isBlankByte x = false :=
  RxM.pauseValue_bytes_shape p

theorem pauseValue_bytes_marked (env : Env) (p : Bytes) (m : List Nat) :
    (Matches env (mark Expect.pauseValue) m ∧ erase m = p.map UInt8.toNat) ↔
      (Matches env Expect.pauseValue (p.map UInt8.toNat) ∧
        m = openSym 1 :: (p.takeWhile isBlankByte).map UInt8.toNat ++ closeSym 1 :: (p.dropWhile isBlankByte).map UInt8.toNat) :=
  RxM.pauseValue_bytes_marked p m

/-- `ReplaceAllString(line, "${1}" + new)`: if `p` is the longest matching prefix of the line `p ++ r`, the result is
group 1 of that match (`p.takeWhile isBlankByte`, by `pauseValue_bytes_marked`), the new text, and the rest `r` -/
theorem pause_replace_longest (env : Env) (p r repl : Bytes) (hm : Matches env Expect.pauseValue (p.map UInt8.toNat))
    (hmax : ∀ p', p' <+: p ++ r → Matches env Expect.pauseValue (p'.map UInt8.toNat) → p'.length ≤ p.length) :
    replaceFirstToken (p ++ r) repl = p.takeWhile isBlankByte ++ repl ++ r :=
  RxM.pause_replace_longest p r repl hm hmax

/-- … and a line without a match is left as it is -/
theorem pause_replace_none (env : Env) (text repl : Bytes)
    (h : ¬ ∃ p, p <+: text ∧ Matches env Expect.pauseValue (p.map UInt8.toNat)) :
    replaceFirstToken text repl = text :=
  RxM.pause_replace_none text repl h

/-! ## The unanchored / ambiguous patterns: the unmarked language only -/

/-- `#([\p{L}\d_-]+)(=(("[^"]*")|('[^']*')|([\p{L}\d_-]*)))?` -/
theorem hashTag_shape (u : UTab) (s : List Char) :
    Matches (rxEnv u) Expect.hashTag (codes s) ↔
      ∃ name val, s = '#' :: name ++ val ∧ name ≠ [] ∧ name.all u.isNameChar = true ∧
        (val = [] ∨ ∃ v, (val = '=' :: '"' :: v ++ ['"'] ∧ '"' ∉ v) ∨ (val = '=' :: '\'' :: v ++ ['\''] ∧ '\'' ∉ v) ∨
          (val = '=' :: v ∧ v.all u.isNameChar = true)) :=
  RxM.hashTag_shape u s

/-- `^(.*?)\?+(.*)$` -/
theorem closePlaceholder_shape (env : Env) (s : List Char) :
    Matches env Expect.closePlaceholder (codes s) ↔
      ∃ a q b, s = a ++ q ++ b ∧ '\n' ∉ a ∧ q ≠ [] ∧ (∀ c ∈ q, c = '?') ∧ '\n' ∉ b :=
  RxM.closePlaceholder_shape s

theorem closePlaceholder_shape_simple (env : Env) (s : List Char) :
    Matches env Expect.closePlaceholder (codes s) ↔ '?' ∈ s ∧ '\n' ∉ s :=
  RxM.closePlaceholder_shape' s

/-- `\x1b\[[\d;]+m` -/
theorem ansiSequence_shape (env : Env) (s : List Char) :
    Matches env Expect.ansiSequence (codes s) ↔
      ∃ ps, s = Char.ofNat 27 :: '[' :: ps ++ ['m'] ∧ ps ≠ [] ∧ ∀ c ∈ ps, isDigit c = true ∨ c = ';' :=
  RxM.ansi_shape s

end KlogV.Regexes
