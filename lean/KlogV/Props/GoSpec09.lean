/-
END TO END, C09 / C16: WRITING A VALUE OUT AND READING IT BACK, WITH THE GO SOURCE'S OWN FUNCTIONS.
`ToString` and `New…FromString` as translated from klog/time.go, duration.go and date.go on this run (Gen/GoSrc.lean,
Gen/GoCal.lean): for every well-formed value the text the Go code writes is read back by the Go code as the same value with
the same notation.  Composition of the source ties (Props/GoSrc.lean, GoSrcParse.lean, GoCal.lean, GoDateParse.lean) with
the round-trip theorems about the model (Props/C16.lean).  The regexp method is the parameter `find` with its contract
(`TimeFind` …, derived from the generic `SubmatchSpec` in Props/GoRx.lean, GoDateParse.lean).  Property theorems only.
-/
import KlogV.Props.GoSrc
import KlogV.Props.GoSrcParse
import KlogV.Props.GoCal
import KlogV.Props.GoDateParse
import KlogV.Props.C16
namespace KlogV.GoTie
open KlogV.Go

/-- times: value, day shift and 12/24-hour notation survive -/
theorem go_time_roundtrip (find : Str → List Str) (hf : TimeFind find) (t : Time) (h : t.wf = true) :
    ∃ s, t.toGo.ToString = .ok s ∧ (GoSrc.NewTimeFromString find s).res = .ok t.toGo := by
  refine ⟨t.print, time_toString_eq t h, ?_⟩
  rw [newTimeFromString_eq find hf, C16.time_parse_print t h]
  rfl

/-- durations: value, explicit plus sign and the sign of zero survive; reading back never panics -/
theorem go_duration_roundtrip (find : Str → List Str) (hf : DurFind find) (d : Dur) (h : C16.DurWF d)
    (h64 : inInt64 d.mins) :
    ∃ s, d.toGo.ToString = .ok s ∧ (GoSrc.NewDurationFromString find s).res = .ok d.toGo := by
  refine ⟨d.print, duration_toString_eq d h64, ?_⟩
  rw [newDurationFromString_eq find hf, C16.dur_parse_print d h]
  rfl

/-- dates: the date and its separator survive -/
theorem go_date_roundtrip (find : Str → List Str) (hf : DateFind find) (x : Date) (h : x.valid = true) :
    ∃ s, x.toGo.ToString = .ok s ∧ (GoCal.NewDateFromString find s).res = .ok x.toGo := by
  refine ⟨x.print, date_toString_eq x h, ?_⟩
  rw [newDateFromString_eq find hf, C16.date_parse_print x h]
  rfl

end KlogV.GoTie
