/-
C12 — All evaluation views partition the same total.
Property theorems only (helper lemmas: KlogV/Lemmas/Report.lean).
-/
import KlogV.Lemmas.Report
import KlogV.Props.Tables
namespace KlogV.C12

/-- Sorting returns the same records, ordered by date. -/
theorem sort_perm (asc : Bool) (rs : List Record) : (sortRecords asc rs).Perm rs :=
  KlogV.sortRecords_perm asc rs

theorem sort_sorted (rs : List Record) :
    (sortRecords true rs).Pairwise (fun a b => b.date.afterOrEqual a.date = true) :=
  KlogV.sortRecords_sorted rs

/-- Grouping by bucket hash is a partition: every record is in exactly one group, the group
whose hash is the hash of its date, and no two groups share a hash. -/
theorem group_partition (k : PeriodKind) (rs : List Record) :
    ((groupByHash k rs).flatMap (·.2.2)).Perm rs ∧
    (∀ g ∈ groupByHash k rs, g.2.2 ≠ [] ∧ ∀ r ∈ g.2.2, hashOf k r.date = g.1) ∧
    ((groupByHash k rs).map (·.1)).Nodup :=
  KlogV.groupByHash_partition k rs

/-- Without gap filling: the rows of the report are exactly the groups, one row per group, and
they sum to the grand total (total and should-total), which is the total of all records. -/
theorem rows_are_groups (k : PeriodKind) (rs : List Record) :
    reportRows k false rs = some ((groupByHash k (sortRecords true rs)).map
      (fun g => ⟨g.2.1, some (totalMins g.2.2, shouldSum g.2.2)⟩)) :=
  KlogV.reportRows_nofill k rs

theorem rows_sum_to_total (k : PeriodKind) (rs : List Record) (rows : List Row)
    (h : reportRows k false rs = some rows) :
    ((rows.filterMap (·.total)).map (·.1)).sum = totalMins rs ∧
    ((rows.filterMap (·.total)).map (·.2)).sum = shouldSum rs :=
  KlogV.reportRows_sum k rs rows h

/-- With gap filling (valid dates): filled rows are empty and the non-empty rows still sum to
the grand total — every record still contributes to exactly one row. -/
theorem rows_sum_to_total_fill (k : PeriodKind) (rs : List Record) (rows : List Row)
    (hv : ∀ r ∈ rs, r.date.valid = true) (h : reportRows k true rs = some rows) :
    ((rows.filterMap (·.total)).map (·.1)).sum = totalMins rs ∧
    ((rows.filterMap (·.total)).map (·.2)).sum = shouldSum rs :=
  KlogV.reportRows_sum_fill k rs rows hv h

/-- `klog today` splits the same total into current-day and other records. -/
theorem today_split (today : Date) (rs c o : List Record) (y : Bool)
    (h : splitCurrentOther today rs = some (c, o, y)) :
    (c ++ o).Perm rs ∧ totalMins c + totalMins o = totalMins rs ∧ shouldSum c + shouldSum o = shouldSum rs :=
  KlogV.splitCurrentOther_spec today rs c o y h

/-- `print --with-totals`: a record's value is the sum of its entries' values, and the records'
values add up to the total. -/
theorem with_totals_sum (rs : List Record) :
    totalMins rs = (rs.map (fun r => (r.entries.map Entry.minutes).sum)).sum := rfl

/-- Non-vacuity: two records in the same ISO week but different months and years. -/
example : (reportRows .week false
    [⟨⟨2021, 1, 2, true⟩, none, [], [⟨.dur ⟨60, false, 0⟩, [[]]⟩]⟩, ⟨⟨2020, 12, 29, true⟩, some 30, [], [⟨.dur ⟨15, false, 0⟩, [[]]⟩]⟩]).map
    (·.map (·.total)) = some [some (75, 30)] := by decide

end KlogV.C12
