/-
C11 — Inserted text follows the file's own style, deterministically.
Property theorems only (helper lemmas: KlogV/Lemmas/Style.lean).
Determinism itself ("the output is a function of file, command and configuration alone") is
what it means for `runCmd` to be a Lean function: the model has no map-iteration order any more
since the fix of D6 (ties go to the style voted for first); the correspondence run checks that the
code behaves like this function, repeating every command on the same input.
-/
import KlogV.Lemmas.Style
import KlogV.Props.Tables
import KlogV.Props.C11b
namespace KlogV.C11

/-- The election returns the default when nobody voted … -/
theorem tally_empty {α} [DecidableEq α] (d : α) : tally ([] : List α) d = d := rfl

/-- … otherwise a value that was voted for, with the maximal number of votes … -/
theorem tally_max {α} [DecidableEq α] (votes : List α) (d : α) (h : votes ≠ []) :
    tally votes d ∈ votes ∧ ∀ v ∈ votes, votes.count v ≤ votes.count (tally votes d) :=
  KlogV.tally_max votes d h

/-- … and among several such values the one that was voted for first (deterministic ties). -/
theorem tally_first_among_ties {α} [DecidableEq α] (votes : List α) (d : α) (v : α) (hv : v ∈ votes)
    (hc : votes.count v = votes.count (tally votes d)) : votes.idxOf (tally votes d) ≤ votes.idxOf v :=
  KlogV.tally_first votes d v hv hc

/-- The unanimous style wins whenever the records agree. -/
theorem tally_unanimous {α} [DecidableEq α] (votes : List α) (d v : α) (h : votes ≠ []) (hall : ∀ x ∈ votes, x = v) :
    tally votes d = v :=
  KlogV.tally_unanimous votes d v h hall

/-- A style fact that the target record itself exhibits (explicit in `base`) is used as is. -/
theorem own_style_wins (base : Style) (rs : List Record) (bs : List (List Line)) :
    (base.lineEnding.2 = true → (elect base rs bs).lineEnding = base.lineEnding) ∧
    (base.indentation.2 = true → (elect base rs bs).indentation = base.indentation) ∧
    (base.dateDashes.2 = true → (elect base rs bs).dateDashes = base.dateDashes) ∧
    (base.time24.2 = true → (elect base rs bs).time24 = base.time24) ∧
    (base.spaced.2 = true → (elect base rs bs).spaced = base.spaced) ∧
    (base.extraQ.2 = true → (elect base rs bs).extraQ = base.extraQ) :=
  KlogV.elect_own_style base rs bs

/-- Otherwise the elected line ending / indentation is one that some record of the file
exhibits, and if no record exhibits any, the default (LF, four spaces). -/
theorem elected_from_file_or_default (base : Style) (rs : List Record) (bs : List (List Line)) :
    (base.indentation.2 = false →
      ((elect base rs bs).indentation.1 = base.indentation.1 ∧ ∀ s ∈ (rs.zip bs).map (fun p => determine p.1 p.2), s.indentation.2 = false) ∨
      (∃ s ∈ (rs.zip bs).map (fun p => determine p.1 p.2), s.indentation.2 = true ∧ (elect base rs bs).indentation.1 = s.indentation.1)) ∧
    (base.lineEnding.2 = false →
      ((elect base rs bs).lineEnding.1 = base.lineEnding.1 ∧ ∀ s ∈ (rs.zip bs).map (fun p => determine p.1 p.2), s.lineEnding.2 = false) ∨
      (∃ s ∈ (rs.zip bs).map (fun p => determine p.1 p.2), s.lineEnding.2 = true ∧ (elect base rs bs).lineEnding.1 = s.lineEnding.1)) :=
  KlogV.elect_from_file base rs bs

theorem default_style : ({} : Style).lineEnding.1 = .lf ∧ ({} : Style).indentation.1 = [32, 32, 32, 32] ∧
    ({} : Style).dateDashes.1 = true ∧ ({} : Style).time24.1 = true ∧ ({} : Style).spaced.1 = true ∧ ({} : Style).extraQ.1 = 0 := by
  decide

/-- Explicit values and configured preferences override the detected style; without either the
detected style is used. -/
theorem reformat_directive (auto v : Bool) :
    (Reformat.none : Reformat Bool).pick auto = none ∧ (Reformat.explicit v).pick auto = some v ∧
    (Reformat.auto : Reformat Bool).pick auto = some auto := by
  simp [Reformat.pick]

theorem date_format_directive (sel : DateSel) (cfg : Config) :
    dateFormatOf sel cfg = (if sel.isExplicit then .none else match cfg.dateDashes with | some x => .explicit x | none => .auto) := rfl

/-- A record's detected indentation is the indentation of its first indented significant line
(never a blank line in front of the record: D7, fixed). -/
theorem determine_indentation (r : Record) (b : List Line) :
    (determine r b).indentation =
      match (significantLines b).findSome? lineIndentation with
      | some i => (i, true)
      | none => ([32, 32, 32, 32], false) :=
  KlogV.determine_indentation r b

/-- Every inserted line is: (indentation unit)^level ++ text ++ the style's line ending — one
indentation unit per level, so lines added to a record never mix indentation styles. -/
-- FALSE: st = { indentation := ([13], true) } (line ending LF), t = ([], 1): the raw line is [13, 10], so
--   mkLine st t = ⟨[], .crlf⟩, but the claimed text is [13] and the claimed ending .lf
--   (an indentation unit ending in CR merges with the LF when the inserted text is empty).
-- theorem inserted_line_shape (st : Style) (t : Insertable) (h : ¬ (10 : UInt8) ∈ t.1) (hcr : t.1.getLast? ≠ some 13)
--     (hi : ¬ (10 : UInt8) ∈ st.indentation.1) (he : st.lineEnding.1 ≠ .none) :
--     (mkLine st t).text = (List.replicate t.2 st.indentation.1).flatten ++ t.1 ∧ (mkLine st t).ending = st.lineEnding.1 :=
--   KlogV.mkLine_shape st t h hcr hi he
example : mkLine { indentation := ([13], true) } ([], 1) = ⟨[], .crlf⟩ := by decide
/-- corrected: additionally the indentation unit must not end in CR (`hic`) -/
theorem inserted_line_shape (st : Style) (t : Insertable) (h : ¬ (10 : UInt8) ∈ t.1) (hcr : t.1.getLast? ≠ some 13)
    (hi : ¬ (10 : UInt8) ∈ st.indentation.1) (he : st.lineEnding.1 ≠ .none)
    (hic : st.indentation.1.getLast? ≠ some 13) :
    (mkLine st t).text = (List.replicate t.2 st.indentation.1).flatten ++ t.1 ∧ (mkLine st t).ending = st.lineEnding.1 :=
  KlogV.mkLine_shape st t h hcr hi he hic

/-- D6 witness (fixed): a tie between two styles is decided by first occurrence. -/
example : tally [[32, 32], [9]] ([32, 32, 32, 32] : Bytes) = [32, 32] ∧ tally [[9], [32, 32]] ([32, 32, 32, 32] : Bytes) = [9] := by decide

end KlogV.C11
