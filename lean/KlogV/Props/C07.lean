/-
C07 — The parallel parser is indistinguishable from the serial parser.
Property theorems only (helper lemmas: KlogV/Lemmas/Parallel.lean).

Everything is stated on the block structure: `parse(block)` is a function of the block's lines
alone, and global line numbers are derived from the block list (`firstLineIndices`), so equal
block lists give equal records, equal errors and equal line numbers.
-/
import KlogV.Lemmas.Parallel
namespace KlogV.C07

/-- The chunks are exactly `n` pieces whose concatenation is the text. -/
theorem chunks_join (t : Bytes) (n : Nat) (hn : 0 < n) : (splitIntoChunks t n).flatten = t :=
  KlogV.chunks_join t n hn

theorem chunks_length (t : Bytes) (n : Nat) : (splitIntoChunks t n).length = n :=
  KlogV.chunks_length t n

/-- No chunk boundary lies between the CR and the LF of a CRLF line ending (`GoodCuts`, defined
in Lemmas/Parallel.lean: whenever a chunk ends in CR, the rest of the text does not start with LF). -/
theorem chunks_good_cuts (t : Bytes) (n : Nat) : GoodCuts (splitIntoChunks t n) :=
  KlogV.chunks_good_cuts t n

/-- For EVERY list of chunks whose cuts respect CRLF — any number of chunks, cuts inside a line,
inside a multi-byte character, on and between blank lines — merging the per-batch results gives
exactly the blocks of the serial pass over the concatenated text. -/
theorem merge_eq_serial (chunks : List Bytes) (h : GoodCuts chunks) :
    parallelBlocksOfChunks chunks = blocksOf chunks.flatten :=
  KlogV.merge_eq_serial chunks h

/-- Results are stored by batch index: the collected array does not depend on the order in which
the workers deliver their results. -/
theorem collect_perm {α} [Inhabited α] (rs : List α) (σ : List Nat) (hσ : σ.Perm (List.range rs.length)) :
    collect rs.length (σ.map (fun i => (i, rs[i]!))) = rs :=
  KlogV.collect_perm rs σ hσ

/-- Main theorem: for every text, every worker count and every arrival order, the parallel
parser finds the serial parser's blocks. -/
theorem main (t : Bytes) (n : Nat) (hn : 0 < n) (σ : List Nat) (hσ : σ.Perm (List.range n)) :
    mergeGo [] [] (collect n (σ.map (fun i => (i, ((splitIntoChunks t n).map processBatch)[i]!)))) = blocksOf t :=
  KlogV.parallel_main t n hn σ hσ

/-- The hypothesis of `merge_eq_serial` is necessary (D17, fixed in /repo): with a cut between CR
and LF of a whitespace-only line the merged blocks differ. -/
example : parallelBlocksOfChunks [[97, 10, 10, 98, 10, 10, 32, 13], [10, 99, 10]] ≠
    blocksOf ([97, 10, 10, 98, 10, 10, 32, 13] ++ [10, 99, 10]) := by decide

end KlogV.C07
