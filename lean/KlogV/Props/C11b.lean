/-
C11 (continued) — "… unless the user configured a preference": how the configuration file is read
(`app.NewConfig`, klog/app/config.go).  The command theorems of C03/C04/C11/C17 quantify over every
configuration; these theorems say which configuration a given file denotes.  Property theorems only
(helper lemmas: KlogV/Lemmas/ConfigFile.lean).
-/
import KlogV.Lemmas.ConfigFile
namespace KlogV.C11

/-- Without a configuration file (or with an empty one) and without environment variables klog runs
with its defaults: no preferences, so the file's own style decides (C11.elected_from_file_or_default). -/
theorem config_defaults (cpus : Nat) : newConfig cpus {} [] = .ok { cpus := cpus } :=
  KlogV.newConfig_defaults cpus

/-- The value a setting has: the LAST assignment `key = value` of the unnamed section. -/
theorem ini_last_wins (es : List (Bytes × Bytes)) (key : String) (v : Bytes) :
    iniGet (es ++ [(bytesOf key, v)]) key = v :=
  KlogV.iniGet_append_same es key v

theorem ini_other_key (es : List (Bytes × Bytes)) (key : String) (k v : Bytes) (h : k ≠ bytesOf key) :
    iniGet (es ++ [(k, v)]) key = iniGet es key :=
  KlogV.iniGet_append_other es key k v h

/-- What an accepted file denotes, setting by setting: exactly the documented values are accepted,
an empty value leaves the default, and every other value makes klog refuse the file. -/
theorem config_file_spec (text : Bytes) (c c' : AppConfig) (h : applyConfigFile text c = .ok c') :
    ∃ es, iniEntries text = some es ∧
      (c'.dateDashes = (if iniGet es "date_format" = [] then c.dateDashes
          else if iniGet es "date_format" = bytesOf "YYYY-MM-DD" then some true else some false) ∧
        (iniGet es "date_format" = [] ∨ iniGet es "date_format" = bytesOf "YYYY-MM-DD" ∨ iniGet es "date_format" = bytesOf "YYYY/MM/DD")) ∧
      (c'.time24 = (if iniGet es "time_convention" = [] then c.time24
          else if iniGet es "time_convention" = bytesOf "24h" then some true else some false) ∧
        (iniGet es "time_convention" = [] ∨ iniGet es "time_convention" = bytesOf "24h" ∨ iniGet es "time_convention" = bytesOf "12h")) ∧
      (if iniGet es "default_rounding" = [] then c'.rounding = c.rounding
        else ∃ n, c'.rounding = some n ∧ parseRounding (decodeGo (iniGet es "default_rounding")) = some n ∧ n ∈ [5, 10, 12, 15, 20, 30, 60]) ∧
      (if iniGet es "default_should_total" = [] then c'.should = c.should
        else ∃ d, c'.should = some d.mins ∧
          Dur.parse (decodeGo (if (iniGet es "default_should_total").getLast? = some 33 then (iniGet es "default_should_total").dropLast
            else iniGet es "default_should_total")) = .ok d) ∧
      (c'.editor = if iniGet es "editor" = [] then c.editor else some (iniGet es "editor")) ∧
      c'.cpus = c.cpus :=
  KlogV.applyConfigFile_spec text c c' h

/-- The environment wins over the file: `NO_COLOR` forces the colourless theme, `EDITOR` the editor;
nothing else is touched. -/
theorem config_env_wins (cpus : Nat) (env : EnvVars) (text : Bytes) (c : AppConfig) (h : applyConfigFile text { cpus := cpus } = .ok c) :
    newConfig cpus env text = .ok { c with colour := if env.noColor then .noColour else c.colour,
                                           editor := match env.editor with | some e => some e | none => c.editor } :=
  KlogV.newConfig_env cpus env text c h

/-- Reading the configuration crashes only for a `default_should_total` with a number of 18 or more
digits (findings D1/D2 through another door). -/
theorem config_panic_only_huge (text : Bytes) (c : AppConfig) (h : applyConfigFile text c = .panic) :
    ∃ es, iniEntries text = some es ∧ HasLongDigitRun (decodeGo (iniGet es "default_should_total")) :=
  KlogV.applyConfigFile_panic text c h

/-- One well-formed line denotes one assignment. -/
theorem ini_single_assignment (key value : Bytes)
    (hk : key ≠ [] ∧ ∀ b ∈ key, b ≠ SP ∧ b ≠ TAB ∧ b ≠ 61 ∧ b ≠ LF ∧ b ≠ CR) (hk0 : key.head? ≠ some 35 ∧ key.head? ≠ some 91)
    (hv : value.head? ≠ some SP ∧ ∀ b ∈ value, b ≠ LF ∧ b ≠ CR) :
    iniEntries (key ++ [SP, 61, SP] ++ value ++ [LF]) = some [(key, value)] :=
  KlogV.iniEntries_single key value hk hk0 hv

/-- The accepted roundings (`--round` and `default_rounding`) are those the C17 theorems are stated for. -/
theorem rounding_values (s : List Char) (n : Nat) (h : parseRounding s = some n) : n ∈ [5, 10, 12, 15, 20, 30, 60] :=
  KlogV.parseRounding_mem s n h

example : applyConfigFile (bytesOf "# my settings\ndate_format = YYYY/MM/DD\r\ndefault_rounding = 15m\ndefault_should_total = 7h30m!\n[x]\ndate_format = nonsense\n") {} =
    .ok { dateDashes := some false, rounding := some 15, should := some 450 } := by decide +kernel
example : applyConfigFile (bytesOf "date_format = DD.MM.YYYY\n") {} = .bad "date_format" := by decide +kernel
example : applyConfigFile (bytesOf "default_should_total = 99999999999999999999h!\n") {} = .panic := by decide +kernel

end KlogV.C11
