/-
END TO END: THE GO SOURCE ITSELF SATISFIES THE SPECIFICATION.
The source tie (Props/GoSrc.lean, Props/GoCal.lean: the translated Go functions compute the model's functions) composed
with the property theorems about the model (Props/C15.lean): statements of C15, C16 and C02 about the
functions `klogv extract` produced from klog/time.go, range.go, date.go and service/period/*.go on this run — the model no
longer appears in them.  `goTimeOffset`, `GoTimeWF`, `GoDateValid`, `goDayNumber` (KlogV/GoSem/SpecDefs.lean) read a translated value.
Property theorems only (helper lemmas: KlogV/Lemmas/GoSpec.lean).
-/
import KlogV.Lemmas.GoSpec15
namespace KlogV.GoTie
open KlogV.Go

/-! ## C15: the calendar -/

/-- C15 (`PlusDays`): the date that many days later by day number, keeping the notation; a panic exactly outside
0000-01-01 … 9999-12-31 (finding D11) — about `(*date).PlusDays` of the Go source. -/
theorem go_plusDays (x : GoCal.date) (n : Int) (hx : GoDateValid x) :
    ((0 ≤ goDayNumber x + n ∧ goDayNumber x + n ≤ 3652424) →
        ∃ r, x.PlusDays n = .ok r ∧ GoDateValid r ∧ goDayNumber r = goDayNumber x + n ∧ r.format = x.format) ∧
    (¬ (0 ≤ goDayNumber x + n ∧ goDayNumber x + n ≤ 3652424) → (x.PlusDays n).res = .panic) :=
  GoL.go_plusDays x n hx

/-- C15 (weekday): Monday = 1 … Sunday = 7 of the proleptic Gregorian calendar (0000-01-01 is a Saturday) -/
theorem go_weekday (x : GoCal.date) (hx : GoDateValid x) :
    x.Weekday = .ok ((goDayNumber x + 5) % 7 + 1) :=
  GoL.go_weekday x hx

/-- C15 (week): `Week.Period()` is Monday … Sunday around the date, or a panic when that week leaves the calendar -/
theorem go_week_period (x : GoCal.date) (hx : GoDateValid x) (p : GoCal.periodData)
    (hp : GoCal.Week.Period ⟨x⟩ = .ok p) :
    GoDateValid p.since ∧ GoDateValid p.until_ ∧ p.since.Weekday = .ok 1 ∧ p.until_.Weekday = .ok 7 ∧
      goDayNumber p.until_ = goDayNumber p.since + 6 ∧ goDayNumber p.since ≤ goDayNumber x ∧ goDayNumber x ≤ goDayNumber p.until_ :=
  GoL.go_week_period x hx p hp

/-- C15 (month): `Month.Period()` runs from the first to the last day of the date's month -/
theorem go_month_period (x : GoCal.date) (hx : GoDateValid x) :
    GoCal.Month.Period ⟨x⟩ =
      .ok ⟨⟨x.year, x.month, 1, ⟨true⟩⟩, ⟨x.year, x.month, daysInInt x.year x.month, ⟨true⟩⟩⟩ :=
  GoL.go_month_period x hx

/-- C15 (quarter): the quarter is ⌈month / 3⌉ and `Quarter.Period()` its three months -/
theorem go_quarter_period (x : GoCal.date) (hx : GoDateValid x) :
    x.Quarter = .ok ((x.month + 2) / 3) ∧
    GoCal.Quarter.Period ⟨x⟩ =
      .ok ⟨⟨x.year, 3 * ((x.month + 2) / 3) - 2, 1, ⟨true⟩⟩,
           ⟨x.year, 3 * ((x.month + 2) / 3), daysInInt x.year (3 * ((x.month + 2) / 3)), ⟨true⟩⟩⟩ :=
  GoL.go_quarter_period x hx

/-- C15 (year) -/
theorem go_year_period (x : GoCal.date) (hx : GoDateValid x) :
    GoCal.Year.Period ⟨x⟩ = .ok ⟨⟨x.year, 1, 1, ⟨true⟩⟩, ⟨x.year, 12, 31, ⟨true⟩⟩⟩ :=
  GoL.go_year_period x hx

/-- non-vacuity -/
example : GoDateValid ⟨2024, 2, 29, ⟨true⟩⟩ := by decide

end KlogV.GoTie
