/-
C19 — The bookmark database behaves as a persistent name-to-file map.
Property theorems only (helper lemmas: KlogV/Lemmas/BookmarksMap.lean).
The abstract specification is a plain function `BName → Option BPath`.
-/
import KlogV.Lemmas.BookmarksMap
namespace KlogV.C19

/-
The definitions the statements use live in KlogV/Lemmas/BookmarksMap.lean (namespace `KlogV`,
moved there unchanged so that the lemma file can state its lemmas); for reference:

  /-- the plain map a database denotes -/
  def denote (bc : Bookmarks) : BName → Option BPath := fun n => bc.get n

  /-- the map operations -/
  def specSet (m : BName → Option BPath) (n : BName) (p : BPath) : BName → Option BPath := fun k => if k = n then some p else m k
  def specUnset (m : BName → Option BPath) (n : BName) : BName → Option BPath := fun k => if k = n then none else m k

  /-- databases have at most one entry per name -/
  abbrev WF (bc : Bookmarks) : Prop := (bc.map (·.1)).Nodup

  def runHistory (bc : Bookmarks) : List BOp → Bookmarks
    | [] => bc
    | op :: ops => runHistory ((bc.apply op).getD bc) ops

  def specHistory (m : BName → Option BPath) : List BOp → (BName → Option BPath)
    | [] => m
    | .set n p :: ops => specHistory (specSet m (newName n) p) ops
    | .unset n :: ops => specHistory (specUnset m (newName n)) ops
    | .clear :: ops => specHistory (fun _ => none) ops

  def decodeDb : Spec.J → Option Bookmarks
    | .arr xs => xs.mapM (fun x => match x with
        | .obj [(k1, .str n), (k2, .str p)] => if k1 = "name".toList ∧ k2 = "path".toList then some (n, p) else none
        | _ => none)
    | _ => none
-/

/-- `@` prefixes are not part of a name; the unnamed bookmark is `default`; a name never starts
with `@` and is never empty. -/
theorem name_normalised (s : List Char) :
    newName s ≠ [] ∧ (newName s).head? ≠ some '@' ∧ newName ('@' :: s) = newName s ∧ newName [] = "default".toList :=
  KlogV.newName_spec s

/-- Each command refines the map operation and preserves well-formedness: `set` adds or
overwrites exactly one name, `unset` removes exactly the named bookmark and fails without change
for an unknown name, `clear` removes all. -/
theorem set_refines (bc : Bookmarks) (h : WF bc) (n : List Char) (p : BPath) :
    ∃ bc', bc.apply (.set n p) = some bc' ∧ WF bc' ∧ denote bc' = specSet (denote bc) (newName n) p :=
  KlogV.apply_set bc h n p

theorem unset_refines (bc : Bookmarks) (h : WF bc) (n : List Char) :
    (denote bc (newName n) = none → bc.apply (.unset n) = none) ∧
    (denote bc (newName n) ≠ none → ∃ bc', bc.apply (.unset n) = some bc' ∧ WF bc' ∧ denote bc' = specUnset (denote bc) (newName n)) :=
  KlogV.apply_unset bc h n

theorem clear_refines (bc : Bookmarks) : bc.apply .clear = some [] ∧ denote [] = fun _ => none := by
  refine ⟨rfl, ?_⟩
  funext n
  simp [denote, Bookmarks.get]

/-- Any history of commands, started from the empty database: the database denotes what the
same history of map operations yields (failed commands change nothing).
(`runHistory`, `specHistory`: see above.) -/
theorem history_refines (ops : List BOp) :
    WF (runHistory [] ops) ∧ denote (runHistory [] ops) = specHistory (fun _ => none) ops :=
  KlogV.history_refines ops

/-- Listing is ordered by name and shows exactly the entries of the map. -/
theorem list_sorted (bc : Bookmarks) :
    bc.sorted.Perm bc ∧ (bc.sorted.map (·.1)).Pairwise (fun a b => charsLe a b = true) :=
  KlogV.sorted_spec bc

/-- Persistence: the database file written after a command can always be read back (with an
independent JSON reader) to exactly that map — for all names and paths, whatever characters they
contain.  (`decodeDb`: see above.) -/
theorem persist_roundtrip (bc : Bookmarks) (h : bc ≠ []) :
    (Spec.readJson bc.toJson).bind decodeDb = some bc.sorted :=
  KlogV.toJson_roundtrip bc h

theorem persist_empty : Bookmarks.toJson [] = [] := rfl

example : (runHistory [] [.set "@work".toList "/a".toList, .set "".toList "/b c".toList, .set "work".toList "/d".toList, .unset "@@x".toList]).toJson =
    "[\n  {\n    \"name\": \"default\",\n    \"path\": \"/b c\"\n  },\n  {\n    \"name\": \"work\",\n    \"path\": \"/d\"\n  }\n]\n".toList := by decide

end KlogV.C19
