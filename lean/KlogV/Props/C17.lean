/-
C17 — Clock-relative behaviour is right at every minute of the day.
Property theorems only (helper lemmas: KlogV/Lemmas/Clock.lean).  All statements are for every
minute / every instant (arithmetic, not enumeration).
-/
import KlogV.Lemmas.Clock
import KlogV.Props.Tables
namespace KlogV.C17

/-- the current wall-clock time as klog reads it: `now.h:now.min`, unshifted, 24-hour -/
abbrev nowTime (now : Instant) : Time := now.time

/-- Rounding: the result is a multiple of the rounding, it is the nearest one, and ties go up.
(For 23:30–23:59 with rounding up the result is `0:00>` of the next day, offset 1440.) -/
theorem round_nearest_ties_up (m v : Nat) (hm : m < 1440)
    (hv : v = 5 ∨ v = 10 ∨ v = 12 ∨ v = 15 ∨ v = 20 ∨ v = 30 ∨ v = 60) :
    let t := roundToNearest ⟨m / 60, m % 60, 0, true⟩ v
    t.wf = true ∧ t.offset % v = 0 ∧ 2 * (t.offset - m) ≤ v ∧ 2 * ((m : Int) - t.offset) < v :=
  KlogV.roundToNearest_spec m v hm hv

/-- The time that start/stop use when none is given: the current time, rounded by the flag or
else by the configured default, else as is. -/
abbrev autoTime (a : AtArgs) (now : Instant) (cfg : Config) : Time := KlogV.autoTime a now cfg

/-- An explicit `--time` is used verbatim. -/
theorem atTime_explicit (a : AtArgs) (now : Instant) (cfg : Config) (t : Time) (h : a.time = some t) :
    atTime a now cfg = .ok t :=
  KlogV.atTime_explicit a now cfg t h

/-- Without `--time`, the rounded current time is written relative to the target record's date:
plain for today, shifted by +24h for yesterday's record (error if that is not representable),
by −24h for tomorrow's, and an error for any other date.  It never panics when today has
neighbouring days. -/
theorem atTime_auto (a : AtArgs) (now : Instant) (cfg : Config) (date y tm : Date)
    (hn : a.time = none) (hd : atDate a.date now.date = some date)
    (hy : now.date.plusDays (-1) = some y) (ht : now.date.plusDays 1 = some tm)
    (hw : (autoTime a now cfg).wf = true) :
    (now.date.sameDay date = true → atTime a now cfg = .ok (autoTime a now cfg)) ∧
    (now.date.sameDay date = false → y.sameDay date = true →
      ((autoTime a now cfg).offset + 1440 < 2880 →
        ∃ t, atTime a now cfg = .ok t ∧ t.wf = true ∧ t.offset = (autoTime a now cfg).offset + 1440) ∧
      (¬ (autoTime a now cfg).offset + 1440 < 2880 → atTime a now cfg = .err)) ∧
    (now.date.sameDay date = false → y.sameDay date = false → tm.sameDay date = true →
      ∃ t, atTime a now cfg = .ok t ∧ t.wf = true ∧ t.offset = (autoTime a now cfg).offset - 1440) ∧
    (now.date.sameDay date = false → y.sameDay date = false → tm.sameDay date = false → atTime a now cfg = .err) :=
  KlogV.atTime_auto a now cfg date y tm hn hd hy ht hw

theorem atTime_never_panics (a : AtArgs) (now : Instant) (cfg : Config) (date y tm : Date)
    (hd : atDate a.date now.date = some date) (hy : now.date.plusDays (-1) = some y) (ht : now.date.plusDays 1 = some tm) :
    atTime a now cfg ≠ .panic :=
  KlogV.atTime_no_panic a now cfg date y tm hd hy ht

/-- The automatic time is always well-formed (so the hypothesis `hw` above is always met). -/
theorem autoTime_wf (a : AtArgs) (now : Instant) (cfg : Config) (hh : now.h < 24) (hm : now.min < 60)
    (hr : ∀ v, a.round = some v ∨ cfg.rounding = some v → v = 5 ∨ v = 10 ∨ v = 12 ∨ v = 15 ∨ v = 20 ∨ v = 30 ∨ v = 60) :
    (autoTime a now cfg).wf = true :=
  KlogV.autoTime_wf a now cfg hh hm hr

/-- `stop` falls back to yesterday's record only when there is no record for today: the creator
chain takes the first eligible creator. -/
theorem fallback_only_without_today (r : Reconciler) (x : Option Reconciler) :
    firstCreator [some r, x] = some r ∧ firstCreator [none, x] = x := by
  cases x <;> simp [firstCreator, List.findSome?]

/-- Former D9/D10 witnesses (fixed in /repo): 23:50 rounded to 30m is `0:00>`; relative to
yesterday's record that is not representable — an error, not a crash. -/
example : atTime ⟨.yesterday, none, some 30⟩ ⟨⟨2021, 3, 4, true⟩, 23, 50⟩ {} = .err := by decide
example : atTime ⟨.default, none, some 30⟩ ⟨⟨2021, 3, 4, true⟩, 23, 50⟩ {} = .ok ⟨0, 0, 1, true⟩ := by decide
example : atTime ⟨.tomorrow, none, some 15⟩ ⟨⟨2021, 12, 31, true⟩, 0, 7⟩ {} = .ok ⟨0, 0, -1, true⟩ := by decide

end KlogV.C17
