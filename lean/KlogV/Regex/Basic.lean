/-
  Regular expressions over code points and capture-group marker symbols:
  syntax, declarative semantics, marking of capture groups.
  Core Lean only.
-/
namespace KlogV.Rx

/-- symbols: Unicode code points `< 0x110000`, and marker symbols `≥ 0x110000` (capture-group boundaries) -/
abbrev Sym := Nat
def maxRune : Nat := 0x110000

/-- interpretation of named classes (`\p{L}` = index 0, `\p{Zs}` = index 1, …) -/
abbrev Env := Nat → Sym → Bool

/-- character class: union of inclusive ranges and of named classes; `neg` complements it WITHIN the code points
(`< maxRune`), so a negated class never contains a marker symbol -/
structure Cls where
  neg : Bool
  ranges : List (Nat × Nat)
  named : List Nat
  deriving DecidableEq, Repr

def Cls.pos (env : Env) (c : Cls) (a : Sym) : Bool :=
  c.ranges.any (fun r => r.1 ≤ a && a ≤ r.2) || c.named.any (fun k => env k a)
def Cls.mem (env : Env) (c : Cls) (a : Sym) : Bool :=
  if c.neg then decide (a < maxRune) && !(c.pos env a) else c.pos env a

inductive Re where
  | zero                    -- matches nothing
  | eps                     -- the empty word
  | cls (c : Cls)           -- one symbol of the class
  | cat (a b : Re)
  | alt (a b : Re)
  | star (a : Re)
  | group (i : Nat) (a : Re)   -- capture group number i
  deriving DecidableEq, Repr

/-- declarative semantics; a group matches what its body matches -/
inductive Matches (env : Env) : Re → List Sym → Prop
  | eps : Matches env .eps []
  | cls {c a} (h : c.mem env a = true) : Matches env (.cls c) [a]
  | cat {a b u v} (h1 : Matches env a u) (h2 : Matches env b v) : Matches env (.cat a b) (u ++ v)
  | altL {a b u} (h : Matches env a u) : Matches env (.alt a b) u
  | altR {a b u} (h : Matches env b u) : Matches env (.alt a b) u
  | starNil {a} : Matches env (.star a) []
  | starCons {a u v} (h1 : Matches env a u) (h2 : Matches env (.star a) v) : Matches env (.star a) (u ++ v)
  | group {i a u} (h : Matches env a u) : Matches env (.group i a) u

def openSym (i : Nat) : Sym := maxRune + 2 * i
def closeSym (i : Nat) : Sym := maxRune + 2 * i + 1
def sym (n : Nat) : Re := .cls ⟨false, [(n, n)], []⟩

/-- make the capture boundaries visible: `group i a` ↦ `openSym i · mark a · closeSym i` -/
def mark : Re → Re
  | .group i a => .cat (sym (openSym i)) (.cat (mark a) (sym (closeSym i)))
  | .cat a b => .cat (mark a) (mark b)
  | .alt a b => .alt (mark a) (mark b)
  | .star a => .star (mark a)
  | r => r

/-- forget the markers of a word -/
def erase (w : List Sym) : List Sym := w.filter (· < maxRune)

/-! ### Convenience constructors used by the generated terms -/

/-- `a?` -/
def Re.opt (a : Re) : Re := .alt a .eps

/-- `a+` -/
def Re.plus (a : Re) : Re := .cat a (.star a)

/-- `a{n}`: `n` copies of `a`; `rep a 0 = eps` -/
def Re.rep (a : Re) : Nat → Re
  | 0 => .eps
  | n + 1 => .cat a (Re.rep a n)

/-- `k` nested optionals `(a (a (… )?)?)?`: between `0` and `k` copies of `a` -/
def Re.optN (a : Re) : Nat → Re
  | 0 => .eps
  | k + 1 => Re.opt (.cat a (Re.optN a k))

/-- `a{lo,hi}`: `rep a lo` followed by `hi - lo` nested optionals -/
def Re.repRange (a : Re) (lo hi : Nat) : Re := .cat (Re.rep a lo) (Re.optN a (hi - lo))

/-- a literal string -/
def Re.lit : List Nat → Re
  | [] => .eps
  | c :: cs => .cat (sym c) (Re.lit cs)

/-- concatenation of a list -/
def Re.catl : List Re → Re
  | [] => .eps
  | r :: rs => .cat r (Re.catl rs)

/-- alternation of a list -/
def Re.altl : List Re → Re
  | [] => .zero
  | r :: rs => .alt r (Re.altl rs)

/-- every range of the class ends below `maxRune` -/
def Cls.runeOnly (c : Cls) : Bool := c.ranges.all (fun r => decide (r.2 < maxRune))

/-- every class occurring in the expression has only code-point ranges -/
def Re.runeOnly : Re → Bool
  | .zero => true
  | .eps => true
  | .cls c => c.runeOnly
  | .cat a b => a.runeOnly && b.runeOnly
  | .alt a b => a.runeOnly && b.runeOnly
  | .star a => a.runeOnly
  | .group _ a => a.runeOnly

end KlogV.Rx
