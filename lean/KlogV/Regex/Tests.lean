/-
  Tests of the equivalence checker, all evaluated by the kernel.
-/
import KlogV.Regex.Equiv

set_option Elab.async false

namespace KlogV.Rx.Tests
open KlogV.Rx

/-- `\d` -/
def d : Re := .cls ⟨false, [(48, 57)], []⟩

/-! ### 1./2. dates: `(\d{4})S(\d{2})S(\d{2})` with `S` the class of minus and slash -/

def sepCls : Re := .cls ⟨false, [(45, 45), (47, 47)], []⟩
def sepAlt : Re := .alt (sym 45) (sym 47)

def dateA : Re :=
  Re.catl [.group 1 (Re.rep d 4), sepCls, .group 2 (Re.rep d 2), sepCls, .group 3 (Re.rep d 2)]

def dateB : Re :=
  .cat (.group 1 (.cat d (.cat d (.cat d d))))
    (.cat sepAlt (.cat (.group 2 (.cat d d)) (.cat sepAlt (.group 3 (.cat d d)))))

theorem date_equiv : equivCheck 400 (mark dateA) (mark dateB) = true := by decide +kernel

/-- group 2 also encloses the second separator -/
def dateB_moved : Re :=
  .cat (.group 1 (.cat d (.cat d (.cat d d))))
    (.cat sepAlt (.cat (.group 2 (.cat (.cat d d) sepAlt)) (.group 3 (.cat d d))))

theorem date_moved_differs : equivCheck 400 (mark dateA) (mark dateB_moved) = false := by decide +kernel
theorem date_moved_witness : (equivWitness 400 (mark dateA) (mark dateB_moved)).isSome = true := by
  decide +kernel
/-- without the markers the two are the same language: the difference is only where the group sits -/
theorem date_moved_same_unmarked : equivCheck 400 dateA dateB_moved = true := by decide +kernel

/-- `\d{2}` of the month became `\d{1,2}` -/
def dateB_12 : Re :=
  .cat (.group 1 (.cat d (.cat d (.cat d d))))
    (.cat sepAlt (.cat (.group 2 (Re.repRange d 1 2)) (.cat sepAlt (.group 3 (.cat d d)))))

theorem date_12_differs : equivCheck 400 (mark dateA) (mark dateB_12) = false := by decide +kernel
theorem date_12_witness : (equivWitness 400 (mark dateA) (mark dateB_12)).isSome = true := by
  decide +kernel

/-- the first separator class (minus, slash) also contains the full stop -/
def sepDot : Re := .cls ⟨false, [(45, 47)], []⟩
def dateB_dot : Re :=
  .cat (.group 1 (.cat d (.cat d (.cat d d))))
    (.cat sepDot (.cat (.group 2 (.cat d d)) (.cat sepAlt (.group 3 (.cat d d)))))

theorem date_dot_differs : equivCheck 400 (mark dateA) (mark dateB_dot) = false := by decide +kernel
theorem date_dot_witness : (equivWitness 400 (mark dateA) (mark dateB_dot)).isSome = true := by
  decide +kernel
/-- the witness is a shortest word matched by exactly one side: here `0000.00-00` with its markers -/
theorem date_dot_witness_val :
    equivWitness 400 (mark dateA) (mark dateB_dot) =
      some [(openSym 1, []), (48, []), (48, []), (48, []), (48, []), (closeSym 1, []), (46, []),
            (openSym 2, []), (48, []), (48, []), (closeSym 2, []), (45, []),
            (openSym 3, []), (48, []), (48, []), (closeSym 3, [])] := by
  decide +kernel

/-! ### 3. duration: `([-+])?((\d+)h)?((\d+)m)?` -/

def sign : Re := .cls ⟨false, [(43, 43), (45, 45)], []⟩

def durA : Re :=
  Re.catl [Re.opt (.group 1 sign),
           Re.opt (.group 2 (.cat (.group 3 (Re.plus d)) (sym 104))),
           Re.opt (.group 4 (.cat (.group 5 (Re.plus d)) (sym 109)))]

def durB : Re :=
  .cat (.alt .eps (.group 1 sign))
    (.cat (.alt .eps (.group 2 (.cat (.group 3 (.cat d (.star d))) (sym 104))))
          (.alt .eps (.group 4 (.cat (.group 5 (.cat d (.star d))) (sym 109)))))

theorem dur_equiv : equivCheck 400 (mark durA) (mark durB) = true := by decide +kernel

/-- `\d+` weakened to `\d*` in group 5 -/
def durB_star : Re :=
  .cat (.alt .eps (.group 1 sign))
    (.cat (.alt .eps (.group 2 (.cat (.group 3 (.cat d (.star d))) (sym 104))))
          (.alt .eps (.group 4 (.cat (.group 5 (.star d)) (sym 109)))))

theorem dur_star_differs : equivCheck 400 (mark durA) (mark durB_star) = false := by decide +kernel

/-! ### 4. tag with a named class: `#([\p{L}\d_-]+)` -/

def tagA : Re := .cat (sym 35) (.group 1 (Re.plus (.cls ⟨false, [(48, 57), (95, 95), (45, 45)], [0]⟩)))
def tagB : Re := .cat (sym 35) (.group 1 (Re.plus (.cls ⟨false, [(45, 45), (48, 57), (95, 95)], [0]⟩)))
def tagC : Re := .cat (sym 35) (.group 1 (Re.plus (.cls ⟨false, [(48, 57), (45, 45)], [0]⟩)))

theorem tag_equiv : equivCheck 400 (mark tagA) (mark tagB) = true := by decide +kernel
theorem tag_differs : equivCheck 400 (mark tagA) (mark tagC) = false := by decide +kernel
theorem tag_witness : equivWitness 400 (mark tagA) (mark tagC) =
    some [(35, [false]), (openSym 1, [false]), (95, [false]), (closeSym 1, [false])] := by decide +kernel

/-! ### 5. negated classes -/

def notQuote : Re := .cls ⟨true, [(34, 34)], []⟩
def quoted : Re := .cat (sym 34) (.cat (.star notQuote) (sym 34))

theorem quoted_equiv : equivCheck 400 (mark quoted) (mark quoted) = true := by decide +kernel

def notBlankA : Re := Re.plus (.cls ⟨true, [(32, 32), (9, 9)], []⟩)
def notBlankB : Re := Re.plus (.cls ⟨true, [(9, 9), (32, 32)], []⟩)

theorem notBlank_equiv : equivCheck 400 (mark notBlankA) (mark notBlankB) = true := by decide +kernel

/-- `.` -/
def dot : Re := .cls ⟨true, [(10, 10)], []⟩

/-- `.` is `[^\n]`, written as two positive ranges -/
theorem dot_equiv :
    equivCheck 400 dot (.cls ⟨false, [(0, 9), (11, 0x10FFFF)], []⟩) = true := by decide +kernel
/-- `.` does not match a marker symbol, so it differs from "any symbol but `\n`" taken up to beyond `maxRune` -/
theorem dot_no_marker :
    equivCheck 400 dot (.cls ⟨false, [(0, 9), (11, 0x110005)], []⟩) = false := by decide +kernel
theorem dot_star_equiv :
    equivCheck 400 (.star dot) (.alt .eps (.cat dot (.star dot))) = true := by decide +kernel

/-- the group is visible after marking … -/
theorem group_visible :
    equivCheck 400 (mark (.group 1 (.star notQuote))) (mark (.star notQuote)) = false := by decide +kernel
theorem group_visible_witness :
    equivWitness 400 (mark (.group 1 (.star notQuote))) (mark (.star notQuote)) = some [] := by
  decide +kernel
/-- … and invisible before -/
theorem group_invisible :
    equivCheck 400 (.group 1 (.star notQuote)) (.star notQuote) = true := by decide +kernel

/-- out of fuel is `false`, with no witness -/
theorem fuel_out : equivCheck 3 (mark dateA) (mark dateB) = false := by decide +kernel
theorem fuel_out_witness : equivWitness 3 (mark dateA) (mark dateB) = none := by decide +kernel

/-! ### 6. a concrete soundness instance -/

theorem date_same_language :
    ∀ (env : Env) (w : List Sym), Matches env (mark dateA) w ↔ Matches env (mark dateB) w :=
  equivCheck_sound 400 _ _ date_equiv

/-- … and what it says about the unmarked expressions: an unmarked word matched by `dateA` has a
marking matched by `mark dateB` -/
theorem date_marking_transfer (env : Env) (w : List Sym) (h : Matches env dateA w)
    (hw : ∀ a ∈ w, a < maxRune) : ∃ m, Matches env (mark dateB) m ∧ erase m = w := by
  obtain ⟨m, hm, he⟩ := mark_complete h hw
  exact ⟨m, (date_same_language env m).1 hm, he⟩

/-! ### 7. further checks: identities that need real exploration -/

def a : Re := sym 97
def b : Re := sym 98
def ab : Re := .alt a b

/-- `(ab)*a = a(ba)*` -/
theorem shift_equiv : equivCheck 100 (.cat (.star (.cat a b)) a) (.cat a (.star (.cat b a))) = true := by
  decide +kernel
/-- `(a*b*)* = (a|b)*` -/
theorem star_star_equiv : equivCheck 100 (.star (.cat (.star a) (.star b))) (.star ab) = true := by
  decide +kernel
/-- `(a|b)* = (a*b)*a*` -/
theorem star_alt_equiv :
    equivCheck 100 (.star ab) (.cat (.star (.cat (.star a) b)) (.star a)) = true := by decide +kernel
/-- `(a|b)*abb` against `(a|b)*bb` -/
theorem suffix_differs :
    equivWitness 100 (.cat (.star ab) (Re.lit [97, 98, 98])) (.cat (.star ab) (Re.lit [98, 98])) =
      some [(98, []), (98, [])] := by decide +kernel
/-- `(a|b)*a(a|b){4}`, whose automaton has 32 states, against `(a*b)*a*a(a|b){4}` -/
theorem blowup_equiv :
    equivCheck 400 (.cat (.star ab) (.cat a (Re.rep ab 4)))
      (.cat (.cat (.star (.cat (.star a) b)) (.star a)) (.cat a (Re.rep ab 4))) = true := by
  decide +kernel

/-- duration with `\d+` written as `\d*\d` -/
def durC : Re :=
  .cat (.alt .eps (.group 1 sign))
    (.cat (.alt .eps (.group 2 (.cat (.group 3 (.cat (.star d) d)) (sym 104))))
          (.alt .eps (.group 4 (.cat (.group 5 (.cat (.star d) d)) (sym 109)))))

theorem dur_equiv' : equivCheck 400 (mark durA) (mark durC) = true := by decide +kernel

/-! ### 8. named classes -/

def L : Re := .cls ⟨false, [], [0]⟩
def Zs : Re := .cls ⟨false, [], [1]⟩

theorem named_union : equivCheck 100 (.alt L Zs) (.cls ⟨false, [], [1, 0]⟩) = true := by decide +kernel
/-- witness: a symbol in `Zs` and not in `L` -/
theorem named_differs : equivWitness 100 (.alt L Zs) L = some [(0, [false, true])] := by decide +kernel

/-- `\p{L}|\P{L}` is every code point only if `\p{L}` contains no marker symbol: `equivCheck`, which
quantifies over all interpretations, refuses (witness: the symbol `maxRune` put into `L`);
`equivCheckRunes` accepts -/
theorem named_compl_all_env :
    equivWitness 100 (.alt L (.cls ⟨true, [], [0]⟩)) (.cls ⟨true, [], []⟩) = some [(maxRune, [true])] := by
  decide +kernel
theorem named_compl_runes :
    equivCheckRunes 100 (.alt L (.cls ⟨true, [], [0]⟩)) (.cls ⟨true, [], []⟩) = true := by
  decide +kernel
theorem named_compl_language (env : Env) (henv : ∀ k a, env k a = true → a < maxRune) (w : List Sym) :
    Matches env (.alt L (.cls ⟨true, [], [0]⟩)) w ↔ Matches env (.cls ⟨true, [], []⟩) w :=
  equivCheckRunes_sound 100 _ _ named_compl_runes env henv w
theorem tag_equiv_runes : equivCheckRunes 400 (mark tagA) (mark tagB) = true := by decide +kernel
theorem tag_differs_runes : equivCheckRunes 400 (mark tagA) (mark tagC) = false := by decide +kernel

end KlogV.Rx.Tests
