/-
  A computable equivalence check for `Re` and its soundness theorem.

  * `norm`, `derivBy`: Brzozowski derivatives with language-preserving smart constructors
    (`mkCat`, `mkAlt`, `mkStar`); `group i a` is treated as `a`.
  * abstract alphabet: a representative (`0`, `maxRune`, every `lo` and `hi + 1` of a range) and one
    truth value per named class; `Cls.mem_eq_memAbs` says that a class built from these end points
    cannot tell a concrete symbol from its abstraction.  Abstract symbols with the same membership
    vector over all classes of the two expressions are merged (`reducedAlphabet`).
  * `explore`: breadth-first worklist over pairs of derivatives, structural recursion on the fuel;
    `explore_sound` shows that the visited list it returns is a bisimulation up to syntactic identity
    (`IsBisim`), and `IsBisim.sound` that bisimilar expressions match the same words.
  * `equivCheck`, `equivWitness`, `equivCheck_sound`; variant `equivCheckRunes` for interpretations
    whose named classes contain code points only.
-/
import KlogV.Regex.Lemmas

namespace KlogV.Rx

/-! ### Language equivalence under one interpretation -/

/-- same language under `env` -/
def LEq (env : Env) (r s : Re) : Prop := ∀ w, Matches env r w ↔ Matches env s w

namespace LEq
variable {env : Env} {a a' b b' c r s t : Re}

theorem refl (r : Re) : LEq env r r := fun _ => Iff.rfl
theorem symm (h : LEq env r s) : LEq env s r := fun w => (h w).symm
theorem trans (h1 : LEq env r s) (h2 : LEq env s t) : LEq env r t := fun w => (h1 w).trans (h2 w)

theorem cat (h1 : LEq env a a') (h2 : LEq env b b') : LEq env (.cat a b) (.cat a' b') := by
  intro w
  simp only [matches_cat]
  constructor
  · rintro ⟨u, v, hu, hv, rfl⟩; exact ⟨u, v, (h1 u).1 hu, (h2 v).1 hv, rfl⟩
  · rintro ⟨u, v, hu, hv, rfl⟩; exact ⟨u, v, (h1 u).2 hu, (h2 v).2 hv, rfl⟩

theorem alt (h1 : LEq env a a') (h2 : LEq env b b') : LEq env (.alt a b) (.alt a' b') := by
  intro w
  simp only [matches_alt, h1 w, h2 w]

theorem star (h : LEq env a a') : LEq env (.star a) (.star a') := by
  intro w
  simp only [matches_star]
  constructor
  · rintro ⟨ws, hws, rfl⟩; exact ⟨ws, fun x hx => (h x).1 (hws x hx), rfl⟩
  · rintro ⟨ws, hws, rfl⟩; exact ⟨ws, fun x hx => (h x).2 (hws x hx), rfl⟩

theorem group {i : Nat} : LEq env (.group i a) a := fun _ => matches_group

theorem cat_assoc : LEq env (.cat (.cat a b) c) (.cat a (.cat b c)) := by
  intro w
  simp only [matches_cat]
  constructor
  · rintro ⟨uv, x, ⟨u, v, hu, hv, rfl⟩, hx, rfl⟩
    exact ⟨u, v ++ x, hu, ⟨v, x, hv, hx, rfl⟩, by simp⟩
  · rintro ⟨u, vx, hu, ⟨v, x, hv, hx, rfl⟩, rfl⟩
    exact ⟨u ++ v, x, ⟨u, v, hu, hv, rfl⟩, hx, by simp⟩

theorem cat_zero_left : LEq env (.cat .zero b) .zero := by
  intro w
  constructor
  · intro h; obtain ⟨_, _, hu, _, _⟩ := matches_cat.1 h; exact absurd hu matches_zero
  · intro h; exact absurd h matches_zero

theorem cat_zero_right : LEq env (.cat a .zero) .zero := by
  intro w
  constructor
  · intro h; obtain ⟨_, _, _, hv, _⟩ := matches_cat.1 h; exact absurd hv matches_zero
  · intro h; exact absurd h matches_zero

theorem cat_eps_left : LEq env (.cat .eps b) b := by
  intro w
  constructor
  · intro h
    obtain ⟨u, v, hu, hv, rfl⟩ := matches_cat.1 h
    rw [matches_eps.1 hu]; simpa using hv
  · intro h
    have := Matches.cat (Matches.eps (env := env)) h
    simpa using this

theorem cat_eps_right : LEq env (.cat a .eps) a := by
  intro w
  constructor
  · intro h
    obtain ⟨u, v, hu, hv, rfl⟩ := matches_cat.1 h
    rw [matches_eps.1 hv]; simpa using hu
  · intro h
    have := Matches.cat h (Matches.eps (env := env))
    simpa using this

end LEq

/-! ### A total order on expressions (only `cmp = .eq → =` is needed) -/

def cmpNat (a b : Nat) : Ordering :=
  if Nat.blt a b then .lt else if Nat.beq a b then .eq else .gt

theorem cmpNat_eq {a b : Nat} (h : cmpNat a b = .eq) : a = b := by
  unfold cmpNat at h
  split at h
  · cases h
  · split at h
    · rename_i h2; exact Nat.eq_of_beq_eq_true h2
    · cases h

def cmpBool : Bool → Bool → Ordering
  | false, true => .lt
  | true, false => .gt
  | _, _ => .eq

theorem cmpBool_eq {a b : Bool} (h : cmpBool a b = .eq) : a = b := by
  cases a <;> cases b <;> first | rfl | cases h

/-- lexicographic combination (own definition, so that the kernel unfolds it cheaply) -/
def thenCmp : Ordering → Ordering → Ordering
  | .eq, o => o
  | o, _ => o

theorem thenCmp_eq {a b : Ordering} (h : thenCmp a b = .eq) : a = .eq ∧ b = .eq := by
  cases a <;> first | exact ⟨rfl, h⟩ | cases h

def cmpListNat : List Nat → List Nat → Ordering
  | [], [] => .eq
  | [], _ :: _ => .lt
  | _ :: _, [] => .gt
  | x :: xs, y :: ys => thenCmp (cmpNat x y) (cmpListNat xs ys)

theorem cmpListNat_eq {xs ys : List Nat} (h : cmpListNat xs ys = .eq) : xs = ys := by
  induction xs generalizing ys with
  | nil => cases ys with
    | nil => rfl
    | cons => cases h
  | cons x xs ih => cases ys with
    | nil => cases h
    | cons y ys =>
      obtain ⟨h1, h2⟩ := thenCmp_eq h
      rw [cmpNat_eq h1, ih h2]

def cmpRanges : List (Nat × Nat) → List (Nat × Nat) → Ordering
  | [], [] => .eq
  | [], _ :: _ => .lt
  | _ :: _, [] => .gt
  | x :: xs, y :: ys => thenCmp (cmpNat x.1 y.1) (thenCmp (cmpNat x.2 y.2) (cmpRanges xs ys))

theorem cmpRanges_eq {xs ys : List (Nat × Nat)} (h : cmpRanges xs ys = .eq) : xs = ys := by
  induction xs generalizing ys with
  | nil => cases ys with
    | nil => rfl
    | cons => cases h
  | cons x xs ih => cases ys with
    | nil => cases h
    | cons y ys =>
      obtain ⟨h1, h2⟩ := thenCmp_eq h
      obtain ⟨h2, h3⟩ := thenCmp_eq h2
      have : x = y := Prod.ext (cmpNat_eq h1) (cmpNat_eq h2)
      rw [this, ih h3]

def Cls.cmp (c d : Cls) : Ordering :=
  thenCmp (cmpBool c.neg d.neg) (thenCmp (cmpRanges c.ranges d.ranges) (cmpListNat c.named d.named))

theorem Cls.cmp_eq {c d : Cls} (h : Cls.cmp c d = .eq) : c = d := by
  obtain ⟨h1, h2⟩ := thenCmp_eq h
  obtain ⟨h2, h3⟩ := thenCmp_eq h2
  cases c; cases d
  simp only at h1 h2 h3
  rw [cmpBool_eq h1, cmpRanges_eq h2, cmpListNat_eq h3]

def Re.tag : Re → Nat
  | .zero => 0
  | .eps => 1
  | .cls _ => 2
  | .cat _ _ => 3
  | .alt _ _ => 4
  | .star _ => 5
  | .group _ _ => 6

def Re.cmp : Re → Re → Ordering
  | .zero, .zero => .eq
  | .eps, .eps => .eq
  | .cls c, .cls d => Cls.cmp c d
  | .cat a b, .cat c d => thenCmp (Re.cmp a c) (Re.cmp b d)
  | .alt a b, .alt c d => thenCmp (Re.cmp a c) (Re.cmp b d)
  | .star a, .star b => Re.cmp a b
  | .group i a, .group j b => thenCmp (cmpNat i j) (Re.cmp a b)
  | a, b => cmpNat a.tag b.tag

theorem Re.cmp_eq {a b : Re} (h : Re.cmp a b = .eq) : a = b := by
  induction a generalizing b with
  | zero => cases b <;> first | rfl | (simp [Re.cmp, Re.tag, cmpNat] at h)
  | eps => cases b <;> first | rfl | (simp [Re.cmp, Re.tag, cmpNat] at h)
  | cls c =>
    cases b <;> try (simp [Re.cmp, Re.tag, cmpNat] at h; done)
    rename_i d
    have hcd : Cls.cmp c d = .eq := by simpa [Re.cmp] using h
    rw [Cls.cmp_eq hcd]
  | cat a1 a2 ih1 ih2 =>
    cases b <;> try (simp [Re.cmp, Re.tag, cmpNat] at h; done)
    obtain ⟨h1, h2⟩ := thenCmp_eq (by simpa [Re.cmp] using h)
    rw [ih1 h1, ih2 h2]
  | alt a1 a2 ih1 ih2 =>
    cases b <;> try (simp [Re.cmp, Re.tag, cmpNat] at h; done)
    obtain ⟨h1, h2⟩ := thenCmp_eq (by simpa [Re.cmp] using h)
    rw [ih1 h1, ih2 h2]
  | star a ih =>
    cases b <;> try (simp [Re.cmp, Re.tag, cmpNat] at h; done)
    rw [ih (by simpa [Re.cmp] using h)]
  | group i a ih =>
    cases b <;> try (simp [Re.cmp, Re.tag, cmpNat] at h; done)
    obtain ⟨h1, h2⟩ := thenCmp_eq (by simpa [Re.cmp] using h)
    rw [cmpNat_eq h1, ih h2]

/-! ### Nullability -/

def nullable : Re → Bool
  | .zero => false
  | .eps => true
  | .cls _ => false
  | .cat a b => nullable a && nullable b
  | .alt a b => nullable a || nullable b
  | .star _ => true
  | .group _ a => nullable a

theorem nullable_iff {env : Env} {r : Re} : nullable r = true ↔ Matches env r [] := by
  induction r with
  | zero => simp [nullable, matches_zero]
  | eps => simp [nullable, matches_eps]
  | cls c => simp [nullable, matches_cls]
  | cat a b iha ihb =>
    simp only [nullable, Bool.and_eq_true, iha, ihb, matches_cat]
    constructor
    · rintro ⟨h1, h2⟩; exact ⟨[], [], h1, h2, rfl⟩
    · rintro ⟨u, v, hu, hv, h⟩
      have h' := h.symm
      rw [List.append_eq_nil_iff] at h'
      rw [h'.1] at hu; rw [h'.2] at hv
      exact ⟨hu, hv⟩
  | alt a b iha ihb => simp only [nullable, Bool.or_eq_true, iha, ihb, matches_alt]
  | star a _ => simp only [nullable, true_iff]; exact .starNil
  | group i a ih => simp only [nullable, ih, matches_group]

/-! ### Smart constructors -/

/-- `cat a b` for `b` neither `zero` nor `eps`: unit/zero laws on the left, right association -/
def catR : Re → Re → Re
  | .zero, _ => .zero
  | .eps, b => b
  | .cat a1 a2, b => catR a1 (catR a2 b)
  | .cls c, b => .cat (.cls c) b
  | .alt a1 a2, b => .cat (.alt a1 a2) b
  | .star a, b => .cat (.star a) b
  | .group i a, b => .cat (.group i a) b

theorem catR_leq {env : Env} (a b : Re) : LEq env (catR a b) (.cat a b) := by
  induction a generalizing b with
  | zero => exact LEq.cat_zero_left.symm
  | eps => exact LEq.cat_eps_left.symm
  | cat a1 a2 ih1 ih2 =>
    simp only [catR]
    exact (ih1 _).trans ((LEq.cat (LEq.refl _) (ih2 b)).trans LEq.cat_assoc.symm)
  | cls c => exact LEq.refl _
  | alt a1 a2 => exact LEq.refl _
  | star a => exact LEq.refl _
  | group i a => exact LEq.refl _

def mkCat (a b : Re) : Re :=
  match b with
  | .zero => .zero
  | .eps => a
  | .cls c => catR a (.cls c)
  | .cat b1 b2 => catR a (.cat b1 b2)
  | .alt b1 b2 => catR a (.alt b1 b2)
  | .star b1 => catR a (.star b1)
  | .group i b1 => catR a (.group i b1)

theorem mkCat_leq {env : Env} (a b : Re) : LEq env (mkCat a b) (.cat a b) := by
  cases b with
  | zero => exact LEq.cat_zero_right.symm
  | eps => exact LEq.cat_eps_right.symm
  | _ => exact catR_leq _ _

/-- the alternatives of an expression -/
def alts : Re → List Re
  | .alt a b => alts a ++ alts b
  | .zero => []
  | .eps => [.eps]
  | .cls c => [.cls c]
  | .cat a b => [.cat a b]
  | .star a => [.star a]
  | .group i a => [.group i a]

/-- insertion into a sorted duplicate-free list -/
def insertAlt (x : Re) : List Re → List Re
  | [] => [x]
  | y :: ys =>
    match Re.cmp x y with
    | .lt => x :: y :: ys
    | .eq => y :: ys
    | .gt => y :: insertAlt x ys

def buildAlt : List Re → Re
  | [] => .zero
  | [x] => x
  | x :: y :: ys => .alt x (buildAlt (y :: ys))

def mkAlt (a b : Re) : Re := buildAlt ((alts a).foldr insertAlt (alts b))

/-- some member of the list matches -/
def MatchesAny (env : Env) (xs : List Re) (w : List Sym) : Prop := ∃ x, x ∈ xs ∧ Matches env x w

theorem matchesAny_nil {env : Env} {w : List Sym} : ¬ MatchesAny env [] w := by
  rintro ⟨_, h, _⟩; cases h

theorem matchesAny_cons {env : Env} {x : Re} {xs : List Re} {w : List Sym} :
    MatchesAny env (x :: xs) w ↔ Matches env x w ∨ MatchesAny env xs w := by
  constructor
  · rintro ⟨y, hy, h⟩
    cases hy with
    | head => exact .inl h
    | tail _ hy => exact .inr ⟨y, hy, h⟩
  · rintro (h | ⟨y, hy, h⟩)
    · exact ⟨x, by simp, h⟩
    · exact ⟨y, by simp [hy], h⟩

theorem matchesAny_append {env : Env} {xs ys : List Re} {w : List Sym} :
    MatchesAny env (xs ++ ys) w ↔ MatchesAny env xs w ∨ MatchesAny env ys w := by
  induction xs with
  | nil => simp [matchesAny_nil]
  | cons x xs ih => simp only [List.cons_append, matchesAny_cons, ih, or_assoc]

theorem matchesAny_alts {env : Env} {r : Re} {w : List Sym} :
    MatchesAny env (alts r) w ↔ Matches env r w := by
  induction r with
  | alt a b iha ihb => simp only [alts, matchesAny_append, iha, ihb, matches_alt]
  | zero => simp [alts, matchesAny_nil, matches_zero]
  | _ => simp [alts, matchesAny_cons, matchesAny_nil]

theorem matchesAny_insertAlt {env : Env} {x : Re} {xs : List Re} {w : List Sym} :
    MatchesAny env (insertAlt x xs) w ↔ Matches env x w ∨ MatchesAny env xs w := by
  induction xs with
  | nil => simp [insertAlt, matchesAny_cons]
  | cons y ys ih =>
    simp only [insertAlt]
    split
    · simp only [matchesAny_cons]
    · rename_i heq
      rw [Re.cmp_eq heq]
      simp only [matchesAny_cons]
      constructor
      · exact .inr
      · rintro (h | h)
        · exact .inl h
        · exact h
    · simp only [matchesAny_cons, ih]
      constructor
      · rintro (h | h | h)
        · exact .inr (.inl h)
        · exact .inl h
        · exact .inr (.inr h)
      · rintro (h | h | h)
        · exact .inr (.inl h)
        · exact .inl h
        · exact .inr (.inr h)

theorem matchesAny_foldr_insertAlt {env : Env} {xs ys : List Re} {w : List Sym} :
    MatchesAny env (xs.foldr insertAlt ys) w ↔ MatchesAny env xs w ∨ MatchesAny env ys w := by
  induction xs with
  | nil => simp [matchesAny_nil]
  | cons x xs ih => simp only [List.foldr_cons, matchesAny_insertAlt, ih, matchesAny_cons, or_assoc]

theorem matches_buildAlt {env : Env} {xs : List Re} {w : List Sym} :
    Matches env (buildAlt xs) w ↔ MatchesAny env xs w := by
  induction xs with
  | nil => simp [buildAlt, matchesAny_nil, matches_zero]
  | cons x xs ih =>
    cases xs with
    | nil => simp [buildAlt, matchesAny_cons, matchesAny_nil]
    | cons y ys =>
      simp only [buildAlt, matches_alt, ih]
      rw [matchesAny_cons (x := x)]

theorem mkAlt_leq {env : Env} (a b : Re) : LEq env (mkAlt a b) (.alt a b) := by
  intro w
  unfold mkAlt
  rw [matches_buildAlt, matchesAny_foldr_insertAlt, matchesAny_alts, matchesAny_alts, matches_alt]

def mkStar : Re → Re
  | .zero => .eps
  | .eps => .eps
  | .star a => .star a
  | .cls c => .star (.cls c)
  | .cat a b => .star (.cat a b)
  | .alt a b => .star (.alt a b)
  | .group i a => .star (.group i a)

theorem star_of_only_nil {env : Env} {a : Re} (h : ∀ u, Matches env a u → u = []) :
    LEq env .eps (.star a) := by
  intro w
  rw [matches_eps]
  constructor
  · rintro rfl; exact .starNil
  · intro hw
    obtain ⟨ws, hws, rfl⟩ := matches_star.1 hw
    rw [List.flatten_eq_nil_iff]
    exact fun l hl => h l (hws l hl)

theorem mkStar_leq {env : Env} (a : Re) : LEq env (mkStar a) (.star a) := by
  cases a with
  | zero => exact star_of_only_nil (fun u hu => absurd hu matches_zero)
  | eps => exact star_of_only_nil (fun u hu => matches_eps.1 hu)
  | star a => exact fun w => matches_star_star.symm
  | _ => exact LEq.refl _

/-- normal form: groups dropped, smart constructors everywhere -/
def norm : Re → Re
  | .zero => .zero
  | .eps => .eps
  | .cls c => .cls c
  | .cat a b => mkCat (norm a) (norm b)
  | .alt a b => mkAlt (norm a) (norm b)
  | .star a => mkStar (norm a)
  | .group _ a => norm a

theorem norm_leq {env : Env} (r : Re) : LEq env (norm r) r := by
  induction r with
  | zero => exact LEq.refl _
  | eps => exact LEq.refl _
  | cls c => exact LEq.refl _
  | cat a b iha ihb => exact (mkCat_leq _ _).trans (LEq.cat iha ihb)
  | alt a b iha ihb => exact (mkAlt_leq _ _).trans (LEq.alt iha ihb)
  | star a ih => exact (mkStar_leq _).trans (LEq.star ih)
  | group i a ih => exact ih.trans LEq.group.symm

/-! ### Derivatives -/

/-- Brzozowski derivative; `p c` tells whether the symbol taken is in the class `c` -/
def derivBy (p : Cls → Bool) : Re → Re
  | .zero => .zero
  | .eps => .zero
  | .cls c => if p c then .eps else .zero
  | .cat a b =>
    if nullable a then mkAlt (mkCat (derivBy p a) b) (derivBy p b) else mkCat (derivBy p a) b
  | .alt a b => mkAlt (derivBy p a) (derivBy p b)
  | .star a => mkCat (derivBy p a) (.star a)
  | .group _ a => derivBy p a

/-- the concrete derivative by the symbol `x` -/
def deriv (env : Env) (x : Sym) (r : Re) : Re := derivBy (fun c => c.mem env x) r

theorem matches_cat_cons {env : Env} {a b : Re} {x : Sym} {w : List Sym} :
    Matches env (.cat a b) (x :: w) ↔
      (∃ u v, Matches env a (x :: u) ∧ Matches env b v ∧ w = u ++ v) ∨
      (Matches env a [] ∧ Matches env b (x :: w)) := by
  rw [matches_cat]
  constructor
  · rintro ⟨u, v, hu, hv, h⟩
    cases u with
    | nil => exact .inr ⟨hu, by simpa using h ▸ hv⟩
    | cons y u =>
      simp only [List.cons_append, List.cons.injEq] at h
      obtain ⟨rfl, rfl⟩ := h
      exact .inl ⟨u, v, hu, hv, rfl⟩
  · rintro (⟨u, v, hu, hv, rfl⟩ | ⟨h1, h2⟩)
    · exact ⟨x :: u, v, hu, hv, rfl⟩
    · exact ⟨[], x :: w, h1, h2, rfl⟩

theorem deriv_correct {env : Env} {x : Sym} {r : Re} {w : List Sym} :
    Matches env (deriv env x r) w ↔ Matches env r (x :: w) := by
  unfold deriv
  induction r generalizing w with
  | zero => simp [derivBy, matches_zero]
  | eps => simp [derivBy, matches_zero, matches_eps]
  | cls c =>
    simp only [derivBy]
    split
    · rename_i h
      rw [matches_eps, matches_cls]
      constructor
      · rintro rfl; exact ⟨x, rfl, h⟩
      · rintro ⟨a, ha, _⟩
        simp only [List.cons.injEq] at ha
        exact ha.2
    · rename_i h
      rw [matches_cls]
      constructor
      · intro h'; exact absurd h' matches_zero
      · rintro ⟨a, ha, hm⟩
        simp only [List.cons.injEq] at ha
        rw [← ha.1] at hm
        exact absurd hm h
  | cat a b iha ihb =>
    simp only [derivBy]
    rw [matches_cat_cons]
    split
    · rename_i hn
      rw [mkAlt_leq _ _ w, matches_alt, mkCat_leq _ _ w, matches_cat, ihb]
      have hn' : Matches env a [] := nullable_iff.1 hn
      constructor
      · rintro (⟨u, v, hu, hv, rfl⟩ | h)
        · exact .inl ⟨u, v, iha.1 hu, hv, rfl⟩
        · exact .inr ⟨hn', h⟩
      · rintro (⟨u, v, hu, hv, rfl⟩ | ⟨_, h⟩)
        · exact .inl ⟨u, v, iha.2 hu, hv, rfl⟩
        · exact .inr h
    · rename_i hn
      rw [mkCat_leq _ _ w, matches_cat]
      constructor
      · rintro ⟨u, v, hu, hv, rfl⟩
        exact .inl ⟨u, v, iha.1 hu, hv, rfl⟩
      · rintro (⟨u, v, hu, hv, rfl⟩ | ⟨h, _⟩)
        · exact ⟨u, v, iha.2 hu, hv, rfl⟩
        · exact absurd (nullable_iff.2 h) hn
  | alt a b iha ihb =>
    simp only [derivBy]
    rw [mkAlt_leq _ _ w, matches_alt, matches_alt, iha, ihb]
  | star a ih =>
    simp only [derivBy]
    rw [mkCat_leq _ _ w, matches_cat, matches_star_cons]
    constructor
    · rintro ⟨u, v, hu, hv, rfl⟩; exact ⟨u, v, ih.1 hu, hv, rfl⟩
    · rintro ⟨u, v, hu, hv, rfl⟩; exact ⟨u, v, ih.2 hu, hv, rfl⟩
  | group i a ih =>
    simp only [derivBy]
    rw [ih, matches_group]

/-- `f` holds of every class occurring in the expression -/
def Re.allCls (f : Cls → Bool) : Re → Bool
  | .zero => true
  | .eps => true
  | .cls c => f c
  | .cat a b => Re.allCls f a && Re.allCls f b
  | .alt a b => Re.allCls f a && Re.allCls f b
  | .star a => Re.allCls f a
  | .group _ a => Re.allCls f a

theorem derivBy_congr {p q : Cls → Bool} {f : Cls → Bool} (hpq : ∀ c, f c = true → p c = q c)
    {r : Re} (hr : r.allCls f = true) : derivBy p r = derivBy q r := by
  induction r with
  | zero => rfl
  | eps => rfl
  | cls c => simp only [derivBy, hpq c hr]
  | cat a b iha ihb =>
    simp only [Re.allCls, Bool.and_eq_true] at hr
    simp only [derivBy, iha hr.1, ihb hr.2]
  | alt a b iha ihb =>
    simp only [Re.allCls, Bool.and_eq_true] at hr
    simp only [derivBy, iha hr.1, ihb hr.2]
  | star a ih =>
    simp only [Re.allCls] at hr
    simp only [derivBy, ih hr]
  | group i a ih =>
    simp only [Re.allCls] at hr
    simp only [derivBy, ih hr]

/-! ### The abstract alphabet -/

/-- abstract symbol: a representative code point / marker and the truth values of the named classes -/
abbrev ASym := Nat × List Bool

def nthBit : List Bool → Nat → Bool
  | [], _ => false
  | b :: _, 0 => b
  | _ :: bs, k + 1 => nthBit bs k

def Cls.posAbs (c : Cls) (α : ASym) : Bool :=
  c.ranges.any (fun r => Nat.ble r.1 α.1 && Nat.ble α.1 r.2) || c.named.any (fun k => nthBit α.2 k)

def Cls.memAbs (c : Cls) (α : ASym) : Bool :=
  if c.neg then Nat.blt α.1 maxRune && !(c.posAbs α) else c.posAbs α

/-- the abstract derivative -/
def derivAbs (α : ASym) (r : Re) : Re := derivBy (fun c => c.memAbs α) r

def elemNat (x : Nat) (l : List Nat) : Bool := l.any (Nat.beq x)

theorem elemNat_sound {x : Nat} {l : List Nat} (h : elemNat x l = true) : x ∈ l := by
  unfold elemNat at h
  rw [List.any_eq_true] at h
  obtain ⟨y, hy, hxy⟩ := h
  rw [Nat.eq_of_beq_eq_true hxy]; exact hy

/-- all range end points (`lo` and `hi + 1`) are representatives, all named indices are `< nb` -/
def Cls.covered (reps : List Nat) (nb : Nat) (c : Cls) : Bool :=
  c.ranges.all (fun r => elemNat r.1 reps && elemNat (r.2 + 1) reps) && c.named.all (fun k => Nat.blt k nb)

/-- the largest representative `≤ a` (used in proofs only) -/
def floorRep (a : Nat) : List Nat → Nat
  | [] => 0
  | r :: rs => if r ≤ a ∧ floorRep a rs ≤ r then r else floorRep a rs

theorem floorRep_le (a : Nat) (rs : List Nat) : floorRep a rs ≤ a := by
  induction rs with
  | nil => exact Nat.zero_le _
  | cons r rs ih =>
    simp only [floorRep]
    split
    · rename_i h; exact h.1
    · exact ih

theorem le_floorRep {a : Nat} {rs : List Nat} {r : Nat} (hr : r ∈ rs) (hle : r ≤ a) :
    r ≤ floorRep a rs := by
  induction rs with
  | nil => cases hr
  | cons y ys ih =>
    simp only [floorRep]
    cases hr with
    | head =>
      split
      · exact Nat.le_refl _
      · rename_i h; omega
    | tail _ hr =>
      have := ih hr
      split
      · rename_i h; omega
      · exact this

theorem floorRep_mem_or {a : Nat} {rs : List Nat} : floorRep a rs = 0 ∨ floorRep a rs ∈ rs := by
  induction rs with
  | nil => exact .inl rfl
  | cons r rs ih =>
    simp only [floorRep]
    split
    · exact .inr (by simp)
    · rcases ih with h | h
      · exact .inl h
      · exact .inr (by simp [h])

theorem floorRep_mem {a : Nat} {rs : List Nat} (h0 : 0 ∈ rs) : floorRep a rs ∈ rs := by
  rcases floorRep_mem_or (a := a) (rs := rs) with h | h
  · rw [h]; exact h0
  · exact h

def absBits (f : Nat → Bool) : Nat → List Bool
  | 0 => []
  | n + 1 => f 0 :: absBits (fun k => f (k + 1)) n

def allBits : Nat → List (List Bool)
  | 0 => [[]]
  | n + 1 => (allBits n).flatMap (fun bs => [false :: bs, true :: bs])

theorem nthBit_absBits {f : Nat → Bool} {n k : Nat} (h : k < n) : nthBit (absBits f n) k = f k := by
  induction n generalizing f k with
  | zero => omega
  | succ n ih =>
    cases k with
    | zero => rfl
    | succ k =>
      simp only [absBits, nthBit]
      exact ih (f := fun k => f (k + 1)) (by omega)

theorem absBits_mem_allBits (f : Nat → Bool) (n : Nat) : absBits f n ∈ allBits n := by
  induction n generalizing f with
  | zero => simp [absBits, allBits]
  | succ n ih =>
    simp only [absBits, allBits, List.mem_flatMap]
    refine ⟨_, ih (fun k => f (k + 1)), ?_⟩
    cases f 0 <;> simp

def alphabet (reps : List Nat) (nb : Nat) : List ASym :=
  reps.flatMap (fun r => (allBits nb).map (fun b => (r, b)))

/-- the abstraction of a concrete symbol under an interpretation -/
def absSym (env : Env) (reps : List Nat) (nb : Nat) (a : Sym) : ASym :=
  (floorRep a reps, absBits (fun k => env k a) nb)

theorem absSym_mem {env : Env} {reps : List Nat} {nb : Nat} {a : Sym} (h0 : 0 ∈ reps) :
    absSym env reps nb a ∈ alphabet reps nb := by
  unfold absSym alphabet
  rw [List.mem_flatMap]
  exact ⟨_, floorRep_mem h0, List.mem_map.2 ⟨_, absBits_mem_allBits _ _, rfl⟩⟩

theorem any_congr_mem {α : Type} {l : List α} {f g : α → Bool} (h : ∀ x ∈ l, f x = g x) :
    l.any f = l.any g := by
  induction l with
  | nil => rfl
  | cons x xs ih =>
    simp only [List.any_cons]
    rw [h x (by simp), ih (fun y hy => h y (by simp [hy]))]

/-- the key lemma: a covered class cannot distinguish a symbol from its abstraction -/
theorem Cls.mem_eq_memAbs {env : Env} {reps : List Nat} {nb : Nat} (hM : maxRune ∈ reps)
    (a : Sym) {c : Cls} (hc : c.covered reps nb = true) :
    c.mem env a = c.memAbs (absSym env reps nb a) := by
  unfold Cls.covered at hc
  simp only [Bool.and_eq_true, List.all_eq_true] at hc
  obtain ⟨hr, hn⟩ := hc
  have hfl : floorRep a reps ≤ a := floorRep_le a reps
  have hpos : c.pos env a = c.posAbs (absSym env reps nb a) := by
    unfold Cls.pos Cls.posAbs absSym
    congr 1
    · apply any_congr_mem
      intro r hrm
      obtain ⟨h1, h2⟩ := hr r hrm
      have h1' : r.1 ≤ a → r.1 ≤ floorRep a reps := le_floorRep (elemNat_sound h1)
      have h2' : r.2 + 1 ≤ a → r.2 + 1 ≤ floorRep a reps := le_floorRep (elemNat_sound h2)
      rw [Bool.eq_iff_iff]
      simp only [Bool.and_eq_true, decide_eq_true_eq, Nat.ble_eq]
      unfold Sym
      omega
    · apply any_congr_mem
      intro k hk
      have : k < nb := by simpa using hn k hk
      simp only
      rw [nthBit_absBits this]
  unfold Cls.mem Cls.memAbs
  rw [hpos]
  have hlt : decide (a < maxRune) = Nat.blt (absSym env reps nb a).1 maxRune := by
    have hM' : maxRune ≤ a → maxRune ≤ floorRep a reps := le_floorRep hM
    rw [Bool.eq_iff_iff]
    simp only [decide_eq_true_eq, Nat.blt_eq, absSym]
    unfold Sym
    omega
  rw [hlt]

/-! ### Derivatives keep the classes of the expression -/

theorem allCls_alts {f : Cls → Bool} {r : Re} (h : r.allCls f = true) :
    ∀ x ∈ alts r, x.allCls f = true := by
  induction r with
  | alt a b iha ihb =>
    simp only [Re.allCls, Bool.and_eq_true] at h
    intro x hx
    simp only [alts, List.mem_append] at hx
    rcases hx with hx | hx
    · exact iha h.1 x hx
    · exact ihb h.2 x hx
  | zero => intro x hx; cases hx
  | _ =>
    intro x hx
    simp only [alts, List.mem_singleton] at hx
    rw [hx]; exact h

theorem allCls_insertAlt {f : Cls → Bool} {x : Re} {xs : List Re} (hx : x.allCls f = true)
    (hxs : ∀ y ∈ xs, y.allCls f = true) : ∀ y ∈ insertAlt x xs, y.allCls f = true := by
  induction xs with
  | nil =>
    intro y hy
    simp only [insertAlt, List.mem_singleton] at hy
    rw [hy]; exact hx
  | cons z zs ih =>
    intro y hy
    simp only [insertAlt] at hy
    split at hy
    · rcases List.mem_cons.1 hy with rfl | hy
      · exact hx
      · exact hxs y hy
    · exact hxs y hy
    · rcases List.mem_cons.1 hy with rfl | hy
      · exact hxs _ (by simp)
      · exact ih (fun y hy => hxs y (by simp [hy])) y hy

theorem allCls_foldr_insertAlt {f : Cls → Bool} {xs ys : List Re}
    (hxs : ∀ y ∈ xs, y.allCls f = true) (hys : ∀ y ∈ ys, y.allCls f = true) :
    ∀ y ∈ xs.foldr insertAlt ys, y.allCls f = true := by
  induction xs with
  | nil => exact hys
  | cons x xs ih =>
    simp only [List.foldr_cons]
    exact allCls_insertAlt (hxs x (by simp)) (ih (fun y hy => hxs y (by simp [hy])))

theorem allCls_buildAlt {f : Cls → Bool} {xs : List Re} (h : ∀ y ∈ xs, y.allCls f = true) :
    (buildAlt xs).allCls f = true := by
  induction xs with
  | nil => rfl
  | cons x xs ih =>
    cases xs with
    | nil => exact h x (by simp)
    | cons y ys =>
      simp only [buildAlt, Re.allCls, Bool.and_eq_true]
      exact ⟨h x (by simp), ih (fun z hz => h z (by simp [hz]))⟩

theorem allCls_mkAlt {f : Cls → Bool} {a b : Re} (ha : a.allCls f = true) (hb : b.allCls f = true) :
    (mkAlt a b).allCls f = true :=
  allCls_buildAlt (allCls_foldr_insertAlt (allCls_alts ha) (allCls_alts hb))

theorem allCls_cat {f : Cls → Bool} {a b : Re} :
    (Re.cat a b).allCls f = true ↔ a.allCls f = true ∧ b.allCls f = true := by
  simp only [Re.allCls, Bool.and_eq_true]

theorem allCls_catR {f : Cls → Bool} {a b : Re} (ha : a.allCls f = true) (hb : b.allCls f = true) :
    (catR a b).allCls f = true := by
  induction a generalizing b with
  | zero => rfl
  | eps => exact hb
  | cat a1 a2 ih1 ih2 =>
    simp only [Re.allCls, Bool.and_eq_true] at ha
    simp only [catR]
    exact ih1 ha.1 (ih2 ha.2 hb)
  | _ =>
    simp only [catR]
    exact allCls_cat.2 ⟨ha, hb⟩

theorem allCls_mkCat {f : Cls → Bool} {a b : Re} (ha : a.allCls f = true) (hb : b.allCls f = true) :
    (mkCat a b).allCls f = true := by
  cases b with
  | zero => rfl
  | eps => exact ha
  | _ => exact allCls_catR ha hb

theorem allCls_derivBy {f : Cls → Bool} {p : Cls → Bool} {r : Re} (h : r.allCls f = true) :
    (derivBy p r).allCls f = true := by
  induction r with
  | zero => rfl
  | eps => rfl
  | cls c => simp only [derivBy]; split <;> rfl
  | cat a b iha ihb =>
    simp only [Re.allCls, Bool.and_eq_true] at h
    simp only [derivBy]
    split
    · exact allCls_mkAlt (allCls_mkCat (iha h.1) h.2) (ihb h.2)
    · exact allCls_mkCat (iha h.1) h.2
  | alt a b iha ihb =>
    simp only [Re.allCls, Bool.and_eq_true] at h
    exact allCls_mkAlt (iha h.1) (ihb h.2)
  | star a ih =>
    have h' : a.allCls f = true := by simpa only [Re.allCls] using h
    exact allCls_mkCat (ih h') h
  | group i a ih =>
    have h' : a.allCls f = true := by simpa only [Re.allCls] using h
    exact ih h'

/-! ### Bisimulations -/

abbrev Pair := Re × Re

def succPair (α : ASym) (p : Pair) : Pair := (derivAbs α p.1, derivAbs α p.2)

/-- `V` is a bisimulation up to syntactic identity: its pairs agree on nullability and every
abstract derivative of a pair is a pair of identical expressions or again in `V`;
`f` holds of all classes that occur -/
structure IsBisim (f : Cls → Bool) (alpha : List ASym) (V : List Pair) : Prop where
  cov : ∀ p ∈ V, p.1.allCls f = true ∧ p.2.allCls f = true
  null : ∀ p ∈ V, nullable p.1 = nullable p.2
  closed : ∀ p ∈ V, ∀ α ∈ alpha, (succPair α p).1 = (succPair α p).2 ∨ succPair α p ∈ V

theorem IsBisim.sound {f : Cls → Bool} {alpha : List ASym} {V : List Pair} (hb : IsBisim f alpha V)
    (env : Env) (hrep : ∀ a : Sym, ∃ β, β ∈ alpha ∧ ∀ c, f c = true → c.mem env a = c.memAbs β)
    (w : List Sym) : ∀ p ∈ V, Matches env p.1 w ↔ Matches env p.2 w := by
  induction w with
  | nil =>
    intro p hp
    rw [← nullable_iff, ← nullable_iff, hb.null p hp]
  | cons a w ih =>
    intro p hp
    obtain ⟨β, hβ, hmem⟩ := hrep a
    obtain ⟨hc1, hc2⟩ := hb.cov p hp
    have e1 : deriv env a p.1 = derivAbs β p.1 := derivBy_congr (f := f) hmem hc1
    have e2 : deriv env a p.2 = derivAbs β p.2 := derivBy_congr (f := f) hmem hc2
    rw [← deriv_correct, ← deriv_correct, e1, e2]
    rcases hb.closed p hp β hβ with h | h
    · simp only [succPair] at h
      rw [h]
    · exact ih _ h

/-! ### Forcing combinators

The kernel evaluates lazily and substitutes unevaluated arguments.  The continuation-passing
identity functions below hand a fully evaluated copy of their argument to the continuation, so
that the expressions and lists that are stored and compared again and again are in normal form. -/

def Re.nf {β : Type} : Re → (Re → β) → β
  | .zero, k => k .zero
  | .eps, k => k .eps
  | .cls c, k => k (.cls c)
  | .cat a b, k => Re.nf a (fun a' => Re.nf b (fun b' => k (.cat a' b')))
  | .alt a b, k => Re.nf a (fun a' => Re.nf b (fun b' => k (.alt a' b')))
  | .star a, k => Re.nf a (fun a' => k (.star a'))
  | .group i a, k => Re.nf a (fun a' => k (.group i a'))

theorem Re.nf_eq {β : Type} (r : Re) (k : Re → β) : Re.nf r k = k r := by
  induction r generalizing k with
  | zero => rfl
  | eps => rfl
  | cls c => rfl
  | cat a b iha ihb => simp only [Re.nf, iha, ihb]
  | alt a b iha ihb => simp only [Re.nf, iha, ihb]
  | star a ih => simp only [Re.nf, ih]
  | group i a ih => simp only [Re.nf, ih]

def forceList {α β : Type} : List α → (List α → β) → β
  | [], k => k []
  | x :: xs, k => forceList xs (fun xs' => k (x :: xs'))

theorem forceList_eq {α β : Type} (l : List α) (k : List α → β) : forceList l k = k l := by
  induction l generalizing k with
  | nil => rfl
  | cons x xs ih => simp only [forceList, ih]

def forceBits {β : Type} : List Bool → (List Bool → β) → β
  | [], k => k []
  | true :: bs, k => forceBits bs (fun bs' => k (true :: bs'))
  | false :: bs, k => forceBits bs (fun bs' => k (false :: bs'))

theorem forceBits_eq {β : Type} (l : List Bool) (k : List Bool → β) : forceBits l k = k l := by
  induction l generalizing k with
  | nil => rfl
  | cons x xs ih => cases x <;> simp only [forceBits, ih]

/-! ### Merging abstract symbols that no class distinguishes -/

def elemCls (c : Cls) (l : List Cls) : Bool :=
  l.any (fun d => match Cls.cmp c d with | .eq => true | _ => false)

theorem elemCls_sound {c : Cls} {l : List Cls} (h : elemCls c l = true) : c ∈ l := by
  unfold elemCls at h
  rw [List.any_eq_true] at h
  obtain ⟨d, hd, hcd⟩ := h
  split at hcd
  · rename_i heq; rw [Cls.cmp_eq heq]; exact hd
  · cases hcd

/-- the distinct classes of an expression -/
def Re.classes : Re → List Cls → List Cls
  | .zero, acc => acc
  | .eps, acc => acc
  | .cls c, acc => if elemCls c acc then acc else c :: acc
  | .cat a b, acc => Re.classes a (Re.classes b acc)
  | .alt a b, acc => Re.classes a (Re.classes b acc)
  | .star a, acc => Re.classes a acc
  | .group _ a, acc => Re.classes a acc

/-- which of the classes contain the abstract symbol -/
def sigOf (classes : List Cls) (α : ASym) : List Bool := classes.map (fun c => c.memAbs α)

def beqBits : List Bool → List Bool → Bool
  | [], [] => true
  | true :: xs, true :: ys => beqBits xs ys
  | false :: xs, false :: ys => beqBits xs ys
  | _, _ => false

theorem beqBits_sound {xs ys : List Bool} (h : beqBits xs ys = true) : xs = ys := by
  induction xs generalizing ys with
  | nil => cases ys with
    | nil => rfl
    | cons => simp [beqBits] at h
  | cons x xs ih => cases ys with
    | nil => cases x <;> simp [beqBits] at h
    | cons y ys =>
      cases x <;> cases y <;> simp only [beqBits] at h <;> first | (rw [ih h]) | cases h

/-- keep one abstract symbol per signature; the accumulator holds symbols with their signatures -/
def reduceAlpha (classes : List Cls) :
    List ASym → List (ASym × List Bool) → List (ASym × List Bool)
  | [], acc => acc
  | α :: αs, acc =>
    forceBits (sigOf classes α) fun s =>
    if acc.any (fun e => beqBits e.2 s) then reduceAlpha classes αs acc
    else reduceAlpha classes αs ((α, s) :: acc)

theorem reduceAlpha_spec {classes : List Cls} {αs : List ASym} {acc : List (ASym × List Bool)}
    (hacc : ∀ e ∈ acc, e.2 = sigOf classes e.1) :
    (∀ e ∈ reduceAlpha classes αs acc, e.2 = sigOf classes e.1) ∧
    (∀ e ∈ acc, e ∈ reduceAlpha classes αs acc) ∧
    (∀ α ∈ αs, ∃ e, e ∈ reduceAlpha classes αs acc ∧ e.2 = sigOf classes α) := by
  induction αs generalizing acc with
  | nil =>
    refine ⟨hacc, fun e he => he, ?_⟩
    intro α hα; cases hα
  | cons α αs ih =>
    simp only [reduceAlpha, forceBits_eq]
    split
    · rename_i hany
      obtain ⟨h1, h2, h3⟩ := ih hacc
      refine ⟨h1, h2, ?_⟩
      intro α' hα'
      rcases List.mem_cons.1 hα' with rfl | hα'
      · rw [List.any_eq_true] at hany
        obtain ⟨e, he, hes⟩ := hany
        exact ⟨e, h2 e he, beqBits_sound hes⟩
      · exact h3 α' hα'
    · have hacc' : ∀ e ∈ (α, sigOf classes α) :: acc, e.2 = sigOf classes e.1 := by
        intro e he
        rcases List.mem_cons.1 he with rfl | he
        · rfl
        · exact hacc e he
      obtain ⟨h1, h2, h3⟩ := ih hacc'
      refine ⟨h1, fun e he => h2 e (by simp [he]), ?_⟩
      intro α' hα'
      rcases List.mem_cons.1 hα' with rfl | hα'
      · exact ⟨_, h2 _ List.mem_cons_self, rfl⟩
      · exact h3 α' hα'

/-- the reduced alphabet -/
def reducedAlphabet (classes : List Cls) (full : List ASym) : List ASym :=
  ((reduceAlpha classes full []).map (fun e => e.1)).reverse

theorem reducedAlphabet_spec {classes : List Cls} {full : List ASym} {α : ASym} (hα : α ∈ full) :
    ∃ β, β ∈ reducedAlphabet classes full ∧ ∀ c ∈ classes, c.memAbs α = c.memAbs β := by
  obtain ⟨h1, _, h3⟩ := reduceAlpha_spec (classes := classes) (αs := full) (acc := [])
    (by intro e he; cases he)
  obtain ⟨e, he, hes⟩ := h3 α hα
  refine ⟨e.1, ?_, ?_⟩
  · unfold reducedAlphabet
    rw [List.mem_reverse]
    exact List.mem_map.2 ⟨e, he, rfl⟩
  · have : sigOf classes e.1 = sigOf classes α := (h1 e he).symm.trans hes
    unfold sigOf at this
    intro c hc
    exact (List.map_inj_left.1 this c hc).symm

/-- what the checker requires of a class: covered by the representatives, and listed -/
def goodCls (reps : List Nat) (nb : Nat) (classes : List Cls) (c : Cls) : Bool :=
  Cls.covered reps nb c && elemCls c classes

/-- abstract symbols that exist if the named classes contain code points only -/
def okSym (α : ASym) : Bool := Nat.blt α.1 maxRune || α.2.all (fun b => !b)

/-- the full abstract alphabet; with `runes = true` only the symbols that exist under an
interpretation whose named classes contain no marker symbols -/
def alphabetFor (runes : Bool) (reps : List Nat) (nb : Nat) : List ASym :=
  if runes then (alphabet reps nb).filter okSym else alphabet reps nb

/-- the named classes contain code points only -/
def Env.RuneOnly (env : Env) : Prop := ∀ k a, env k a = true → a < maxRune

theorem absBits_all_false {f : Nat → Bool} (hf : ∀ k, f k = false) (n : Nat) :
    (absBits f n).all (fun b => !b) = true := by
  induction n generalizing f with
  | zero => rfl
  | succ n ih =>
    simp only [absBits, List.all_cons, hf 0, Bool.not_false, Bool.true_and]
    exact ih (fun k => hf (k + 1))

theorem absSym_mem_alphabetFor {runes : Bool} {env : Env} {reps : List Nat} {nb : Nat} {a : Sym}
    (h0 : 0 ∈ reps) (henv : runes = true → env.RuneOnly) :
    absSym env reps nb a ∈ alphabetFor runes reps nb := by
  unfold alphabetFor
  split
  · rename_i hr
    rw [List.mem_filter]
    refine ⟨absSym_mem h0, ?_⟩
    unfold okSym absSym
    simp only [Bool.or_eq_true, Nat.blt_eq]
    by_cases hlt : floorRep a reps < maxRune
    · exact .inl hlt
    · refine .inr (absBits_all_false ?_ nb)
      intro k
      have hge : maxRune ≤ a := Nat.le_trans (Nat.le_of_not_lt hlt) (floorRep_le a reps)
      cases hk : env k a with
      | false => rfl
      | true => exact absurd (henv hr k a hk) (Nat.not_lt_of_le hge)
  · exact absSym_mem h0

theorem reducedAlphabet_rep {runes : Bool} {reps : List Nat} {nb : Nat} {classes : List Cls}
    (h0 : 0 ∈ reps) (hM : maxRune ∈ reps) (env : Env) (henv : runes = true → env.RuneOnly)
    (a : Sym) :
    ∃ β, β ∈ reducedAlphabet classes (alphabetFor runes reps nb) ∧
      ∀ c, goodCls reps nb classes c = true → c.mem env a = c.memAbs β := by
  obtain ⟨β, hβ, hsig⟩ := reducedAlphabet_spec (classes := classes)
    (absSym_mem_alphabetFor (nb := nb) (a := a) h0 henv)
  refine ⟨β, hβ, ?_⟩
  intro c hc
  unfold goodCls at hc
  rw [Bool.and_eq_true] at hc
  rw [Cls.mem_eq_memAbs hM a hc.1, hsig c (elemCls_sound hc.2)]

/-! ### Exploration -/

inductive Result where
  | ok (visited : List Pair)
  | diff (w : List ASym)
  | outOfFuel

def Re.same (a b : Re) : Bool :=
  match Re.cmp a b with
  | .eq => true
  | _ => false

theorem Re.same_sound {a b : Re} (h : Re.same a b = true) : a = b := by
  unfold Re.same at h
  split at h
  · rename_i heq; exact Re.cmp_eq heq
  · cases h

def Pair.beq (p q : Pair) : Bool := Re.same p.1 q.1 && Re.same p.2 q.2

theorem Pair.beq_sound {p q : Pair} (h : Pair.beq p q = true) : p = q := by
  unfold Pair.beq at h
  rw [Bool.and_eq_true] at h
  exact Prod.ext (Re.same_sound h.1) (Re.same_sound h.2)

def elemPair (p : Pair) (l : List Pair) : Bool := l.any (Pair.beq p)

theorem elemPair_sound {p : Pair} {l : List Pair} (h : elemPair p l = true) : p ∈ l := by
  unfold elemPair at h
  rw [List.any_eq_true] at h
  obtain ⟨q, hq, hpq⟩ := h
  rw [Pair.beq_sound hpq]; exact hq

/-- work items: the (reversed) abstract word that leads to the pair, and the pair -/
abbrev Item := List ASym × Pair

def todoHas (q : Pair) (l : List Item) : Bool := l.any (fun it => Pair.beq q it.2)

theorem todoHas_sound {q : Pair} {l : List Item} (h : todoHas q l = true) :
    ∃ t, t ∈ l ∧ t.2 = q := by
  unfold todoHas at h
  rw [List.any_eq_true] at h
  obtain ⟨t, ht, htq⟩ := h
  exact ⟨t, ht, (Pair.beq_sound htq).symm⟩

/-- successors of `p` that are neither trivial nor known; `new` is accumulated in reverse -/
def pushSuccs (p : Pair) (w : List ASym) (visited : List Pair) (rest : List Item) :
    List ASym → List Item → List Item
  | [], new => new
  | α :: αs, new =>
    Re.nf (derivAbs α p.1) fun q1 =>
    Re.nf (derivAbs α p.2) fun q2 =>
    if Re.same q1 q2 || elemPair (q1, q2) visited || todoHas (q1, q2) rest || todoHas (q1, q2) new
    then pushSuccs p w visited rest αs new
    else pushSuccs p w visited rest αs ((α :: w, (q1, q2)) :: new)

theorem pushSuccs_spec (p : Pair) (w : List ASym) (visited : List Pair) (rest : List Item)
    (αs : List ASym) (new : List Item) :
    (∀ t ∈ new, t ∈ pushSuccs p w visited rest αs new) ∧
    (∀ α ∈ αs, (succPair α p).1 = (succPair α p).2 ∨ succPair α p ∈ visited ∨
        (∃ t, t ∈ rest ∧ t.2 = succPair α p) ∨
        (∃ t, t ∈ pushSuccs p w visited rest αs new ∧ t.2 = succPair α p)) ∧
    (∀ t ∈ pushSuccs p w visited rest αs new, t ∈ new ∨ ∃ α, α ∈ αs ∧ t.2 = succPair α p) := by
  induction αs generalizing new with
  | nil =>
    refine ⟨fun t ht => ht, ?_, fun t ht => .inl ht⟩
    intro α hα; cases hα
  | cons α αs ih =>
    simp only [pushSuccs, Re.nf_eq]
    split
    · rename_i hc
      obtain ⟨h1, h2, h3⟩ := ih new
      refine ⟨h1, ?_, ?_⟩
      · intro α' hα'
        rcases List.mem_cons.1 hα' with rfl | hα'
        · simp only [Bool.or_eq_true] at hc
          rcases hc with ((hc | hc) | hc) | hc
          · exact .inl (Re.same_sound hc)
          · exact .inr (.inl (elemPair_sound hc))
          · exact .inr (.inr (.inl (todoHas_sound hc)))
          · obtain ⟨t, ht, htq⟩ := todoHas_sound hc
            exact .inr (.inr (.inr ⟨t, h1 t ht, htq⟩))
        · exact h2 α' hα'
      · intro t ht
        rcases h3 t ht with h | ⟨α', hα', h⟩
        · exact .inl h
        · exact .inr ⟨α', by simp [hα'], h⟩
    · obtain ⟨h1, h2, h3⟩ := ih ((α :: w, (derivAbs α p.1, derivAbs α p.2)) :: new)
      refine ⟨fun t ht => h1 t (by simp [ht]), ?_, ?_⟩
      · intro α' hα'
        rcases List.mem_cons.1 hα' with rfl | hα'
        · exact .inr (.inr (.inr ⟨_, h1 _ List.mem_cons_self, rfl⟩))
        · exact h2 α' hα'
      · intro t ht
        rcases h3 t ht with h | ⟨α', hα', h⟩
        · rcases List.mem_cons.1 h with rfl | h
          · exact .inr ⟨α, by simp, rfl⟩
          · exact .inl h
        · exact .inr ⟨α', by simp [hα'], h⟩

/-- breadth-first exploration of the pairs of derivatives; `fuel` bounds the number of pairs processed -/
def explore (alpha : List ASym) : Nat → List Pair → List Item → Result
  | _, visited, [] => .ok visited
  | 0, _, _ :: _ => .outOfFuel
  | fuel + 1, visited, (w, p) :: rest =>
    if nullable p.1 == nullable p.2 then
      forceList (rest ++ (pushSuccs p w (p :: visited) rest alpha []).reverse) fun todo =>
      explore alpha fuel (p :: visited) todo
    else .diff w.reverse

/-- the invariant of the exploration -/
def Inv (f : Cls → Bool) (alpha : List ASym) (visited : List Pair) (todo : List Item) : Prop :=
  (∀ p ∈ visited, (p.1.allCls f = true ∧ p.2.allCls f = true) ∧ nullable p.1 = nullable p.2 ∧
      ∀ α ∈ alpha, (succPair α p).1 = (succPair α p).2 ∨ succPair α p ∈ visited ∨
        ∃ t, t ∈ todo ∧ t.2 = succPair α p) ∧
  (∀ t ∈ todo, t.2.1.allCls f = true ∧ t.2.2.allCls f = true)

theorem explore_sound {f : Cls → Bool} {alpha : List ASym} (fuel : Nat) :
    ∀ (visited : List Pair) (todo : List Item) (V : List Pair),
      explore alpha fuel visited todo = .ok V → Inv f alpha visited todo →
      IsBisim f alpha V ∧ (∀ p ∈ visited, p ∈ V) ∧ (∀ t ∈ todo, t.2 ∈ V) := by
  have hnil : ∀ (fuel : Nat) (visited : List Pair) (V : List Pair),
      explore alpha fuel visited [] = .ok V → Inv f alpha visited [] →
      IsBisim f alpha V ∧ (∀ p ∈ visited, p ∈ V) ∧ (∀ t ∈ ([] : List Item), t.2 ∈ V) := by
    intro fuel visited V h hinv
    have hV : visited = V := by
      cases fuel <;> simpa [explore] using h
    subst hV
    refine ⟨⟨fun p hp => (hinv.1 p hp).1, fun p hp => (hinv.1 p hp).2.1, ?_⟩, fun p hp => hp,
      fun t ht => by cases ht⟩
    intro p hp α hα
    rcases (hinv.1 p hp).2.2 α hα with h | h | ⟨t, ht, _⟩
    · exact .inl h
    · exact .inr h
    · cases ht
  induction fuel with
  | zero =>
    intro visited todo V h hinv
    cases todo with
    | nil => exact hnil 0 visited V h hinv
    | cons t rest => simp [explore] at h
  | succ fuel ih =>
    intro visited todo V h hinv
    cases todo with
    | nil => exact hnil _ visited V h hinv
    | cons t rest =>
      obtain ⟨w, p⟩ := t
      simp only [explore, forceList_eq] at h
      split at h
      · rename_i hnull
        have hnull' : nullable p.1 = nullable p.2 := by simpa using hnull
        obtain ⟨hvis, htodo⟩ := hinv
        have hcovp := htodo (w, p) (by simp)
        obtain ⟨hs1, hs2, hs3⟩ := pushSuccs_spec p w (p :: visited) rest alpha []
        have hinv' : Inv f alpha (p :: visited)
            (rest ++ (pushSuccs p w (p :: visited) rest alpha []).reverse) := by
          refine ⟨?_, ?_⟩
          · intro p' hp'
            rcases List.mem_cons.1 hp' with rfl | hp'
            · refine ⟨hcovp, hnull', ?_⟩
              intro α hα
              rcases hs2 α hα with h | h | ⟨t, ht, hq⟩ | ⟨t, ht, hq⟩
              · exact .inl h
              · exact .inr (.inl h)
              · exact .inr (.inr ⟨t, by simp [ht], hq⟩)
              · exact .inr (.inr ⟨t, by simp [ht], hq⟩)
            · obtain ⟨hc, hn, hsucc⟩ := hvis p' hp'
              refine ⟨hc, hn, ?_⟩
              intro α hα
              rcases hsucc α hα with h | h | ⟨t, ht, hq⟩
              · exact .inl h
              · exact .inr (.inl (by simp [h]))
              · rcases List.mem_cons.1 ht with rfl | ht
                · exact .inr (.inl (by rw [← hq]; simp))
                · exact .inr (.inr ⟨t, by simp [ht], hq⟩)
          · intro t ht
            rcases List.mem_append.1 ht with ht | ht
            · exact htodo t (by simp [ht])
            · rw [List.mem_reverse] at ht
              rcases hs3 t ht with h | ⟨α, _, hq⟩
              · cases h
              · rw [hq]
                exact ⟨allCls_derivBy hcovp.1, allCls_derivBy hcovp.2⟩
        obtain ⟨hb, hv, ht⟩ := ih _ _ V h hinv'
        refine ⟨hb, fun p' hp' => hv p' (by simp [hp']), ?_⟩
        intro t ht'
        rcases List.mem_cons.1 ht' with rfl | ht'
        · exact hv _ (by simp)
        · exact ht t (by simp [ht'])
      · cases h

/-! ### Alphabet of a pair of expressions -/

def insertNat (x : Nat) : List Nat → List Nat
  | [] => [x]
  | y :: ys => if Nat.blt x y then x :: y :: ys else if Nat.beq x y then y :: ys else y :: insertNat x ys

def Cls.endpoints (c : Cls) (acc : List Nat) : List Nat :=
  c.ranges.foldr (fun r acc => insertNat r.1 (insertNat (r.2 + 1) acc)) acc

def Re.endpoints : Re → List Nat → List Nat
  | .zero, acc => acc
  | .eps, acc => acc
  | .cls c, acc => c.endpoints acc
  | .cat a b, acc => Re.endpoints a (Re.endpoints b acc)
  | .alt a b, acc => Re.endpoints a (Re.endpoints b acc)
  | .star a, acc => Re.endpoints a acc
  | .group _ a, acc => Re.endpoints a acc

def Cls.namedBound (c : Cls) : Nat := c.named.foldr (fun k m => Nat.max (k + 1) m) 0

def Re.namedBound : Re → Nat
  | .zero => 0
  | .eps => 0
  | .cls c => c.namedBound
  | .cat a b => Nat.max (Re.namedBound a) (Re.namedBound b)
  | .alt a b => Nat.max (Re.namedBound a) (Re.namedBound b)
  | .star a => Re.namedBound a
  | .group _ a => Re.namedBound a

/-- the representatives for a pair of expressions: `0`, `maxRune` and all range end points, sorted -/
def repsOf (r1 r2 : Re) : List Nat :=
  insertNat 0 (insertNat maxRune (r1.endpoints (r2.endpoints [])))

/-! ### The checker -/

/-- exploration from the pair `(n1, n2)` with the given representatives, number of named classes and class list -/
def checkWith (runes : Bool) (fuel : Nat) (n1 n2 : Re) (reps : List Nat) (nb : Nat)
    (classes : List Cls) : Result :=
  if elemNat 0 reps && elemNat maxRune reps &&
      n1.allCls (goodCls reps nb classes) && n2.allCls (goodCls reps nb classes) then
    forceList (reducedAlphabet classes (alphabetFor runes reps nb)) fun alpha =>
    explore alpha fuel [] [([], (n1, n2))]
  else .outOfFuel

theorem checkWith_sound {runes : Bool} {fuel : Nat} {n1 n2 : Re} {reps : List Nat} {nb : Nat}
    {classes : List Cls} {V : List Pair} (h : checkWith runes fuel n1 n2 reps nb classes = .ok V)
    (env : Env) (henv : runes = true → env.RuneOnly) (w : List Sym) :
    Matches env n1 w ↔ Matches env n2 w := by
  unfold checkWith at h
  simp only [forceList_eq] at h
  split at h
  · rename_i hc
    simp only [Bool.and_eq_true] at hc
    obtain ⟨⟨⟨h0, hM⟩, hc1⟩, hc2⟩ := hc
    have hinv : Inv (goodCls reps nb classes) (reducedAlphabet classes (alphabetFor runes reps nb)) []
        [([], (n1, n2))] := by
      refine ⟨fun p hp => (by cases hp), ?_⟩
      intro t ht
      rw [List.mem_singleton] at ht
      rw [ht]; exact ⟨hc1, hc2⟩
    obtain ⟨hb, _, ht⟩ := explore_sound fuel _ _ V h hinv
    exact hb.sound env (reducedAlphabet_rep (elemNat_sound h0) (elemNat_sound hM) env henv) w (n1, n2)
      (ht ([], (n1, n2)) (by simp))
  · cases h

/-- the check on normalised expressions -/
def checkCore (runes : Bool) (fuel : Nat) (n1 n2 : Re) : Result :=
  Re.nf n1 fun n1 => Re.nf n2 fun n2 =>
  if Re.same n1 n2 then .ok []
  else
    forceList (repsOf n1 n2) fun reps =>
    forceList (n1.classes (n2.classes [])) fun classes =>
    checkWith runes fuel n1 n2 reps (Nat.max n1.namedBound n2.namedBound) classes

theorem checkCore_sound {runes : Bool} {fuel : Nat} {n1 n2 : Re} {V : List Pair}
    (h : checkCore runes fuel n1 n2 = .ok V) (env : Env) (henv : runes = true → env.RuneOnly)
    (w : List Sym) : Matches env n1 w ↔ Matches env n2 w := by
  unfold checkCore at h
  simp only [Re.nf_eq, forceList_eq] at h
  split at h
  · rename_i hs
    rw [Re.same_sound hs]
  · exact checkWith_sound h env henv w

/-- `equivCheck fuel r1 r2 = true` ⇒ the two expressions match the same words under EVERY
interpretation of the named classes -/
def equivCheck (fuel : Nat) (r1 r2 : Re) : Bool :=
  match checkCore false fuel (norm r1) (norm r2) with
  | .ok _ => true
  | _ => false

/-- on failure: a distinguishing abstract word, for diagnostics only; `none` if equivalent or out of fuel -/
def equivWitness (fuel : Nat) (r1 r2 : Re) : Option (List (Nat × List Bool)) :=
  match checkCore false fuel (norm r1) (norm r2) with
  | .diff w => some w
  | _ => none

theorem equivCheck_sound (fuel : Nat) (r1 r2 : Re) (h : equivCheck fuel r1 r2 = true) :
    ∀ (env : Env) (w : List Sym), Matches env r1 w ↔ Matches env r2 w := by
  intro env w
  unfold equivCheck at h
  split at h
  · rename_i V hV
    exact ((norm_leq r1 w).symm.trans (checkCore_sound hV env (fun h => by cases h) w)).trans
      (norm_leq r2 w)
  · cases h

/-! ### Variant: named classes are known to contain code points only

`equivCheck` quantifies over every interpretation, also those where `\p{L}` contains a marker symbol;
so it rejects e.g. `\p{L}|[^\p{L}]` against "any code point".  The variant below only explores the
abstract symbols that exist when no named class contains a marker. -/

def equivCheckRunes (fuel : Nat) (r1 r2 : Re) : Bool :=
  match checkCore true fuel (norm r1) (norm r2) with
  | .ok _ => true
  | _ => false

def equivWitnessRunes (fuel : Nat) (r1 r2 : Re) : Option (List (Nat × List Bool)) :=
  match checkCore true fuel (norm r1) (norm r2) with
  | .diff w => some w
  | _ => none

theorem equivCheckRunes_sound (fuel : Nat) (r1 r2 : Re) (h : equivCheckRunes fuel r1 r2 = true) :
    ∀ (env : Env), (∀ k a, env k a = true → a < maxRune) →
      ∀ (w : List Sym), Matches env r1 w ↔ Matches env r2 w := by
  intro env henv w
  unfold equivCheckRunes at h
  split at h
  · rename_i V hV
    exact ((norm_leq r1 w).symm.trans (checkCore_sound hV env (fun _ => henv) w)).trans
      (norm_leq r2 w)
  · cases h

end KlogV.Rx
