/-
  Inversion / characterisation lemmas for `Matches`, and the two lemmas relating
  `mark` and `erase`.
-/
import KlogV.Regex.Basic

namespace KlogV.Rx

variable {env : Env}

/-! ### Constructors of `Re` -/

theorem matches_zero {w : List Sym} : ¬ Matches env .zero w := by
  intro h; cases h

theorem matches_eps {w : List Sym} : Matches env .eps w ↔ w = [] :=
  ⟨fun h => by cases h; rfl, fun h => h ▸ .eps⟩

theorem matches_cls {c : Cls} {w : List Sym} :
    Matches env (.cls c) w ↔ ∃ a, w = [a] ∧ c.mem env a = true :=
  ⟨fun h => by cases h with | cls h => exact ⟨_, rfl, h⟩,
   fun ⟨_, hw, h⟩ => hw ▸ .cls h⟩

theorem matches_cat {a b : Re} {w : List Sym} :
    Matches env (.cat a b) w ↔ ∃ u v, Matches env a u ∧ Matches env b v ∧ w = u ++ v :=
  ⟨fun h => by cases h with | cat h1 h2 => exact ⟨_, _, h1, h2, rfl⟩,
   fun ⟨_, _, h1, h2, hw⟩ => hw ▸ .cat h1 h2⟩

theorem matches_alt {a b : Re} {w : List Sym} :
    Matches env (.alt a b) w ↔ Matches env a w ∨ Matches env b w :=
  ⟨fun h => by
      cases h with
      | altL h => exact .inl h
      | altR h => exact .inr h,
   fun h => h.elim .altL .altR⟩

theorem matches_group {i : Nat} {a : Re} {w : List Sym} :
    Matches env (.group i a) w ↔ Matches env a w :=
  ⟨fun h => by cases h with | group h => exact h, .group⟩

theorem matches_star {a : Re} {w : List Sym} :
    Matches env (.star a) w ↔ ∃ ws : List (List Sym), (∀ x ∈ ws, Matches env a x) ∧ w = ws.flatten := by
  constructor
  · intro h
    generalize hr : Re.star a = r at h
    induction h with
    | starNil => exact ⟨[], by simp, rfl⟩
    | @starCons a' u v h1 _ _ ih2 =>
      cases hr
      obtain ⟨ws, hws, rfl⟩ := ih2 rfl
      refine ⟨u :: ws, ?_, by simp⟩
      intro x hx
      cases hx with
      | head => exact h1
      | tail _ hx => exact hws x hx
    | _ => cases hr
  · rintro ⟨ws, hws, rfl⟩
    induction ws with
    | nil => exact .starNil
    | cons x xs ih =>
      rw [List.flatten_cons]
      exact .starCons (hws x (by simp)) (ih (fun y hy => hws y (by simp [hy])))

/-- unfolding of `star` at a nonempty first factor -/
theorem matches_star_cons {a : Re} {x : Sym} {w : List Sym} :
    Matches env (.star a) (x :: w) ↔
      ∃ u v, Matches env a (x :: u) ∧ Matches env (.star a) v ∧ w = u ++ v := by
  constructor
  · intro h
    generalize hr : Re.star a = r at h
    generalize hw : x :: w = w' at h
    induction h with
    | starNil => cases hw
    | @starCons a' u v h1 h2 _ ih2 =>
      cases hr
      cases u with
      | nil => exact ih2 rfl (by simpa using hw)
      | cons y u =>
        simp only [List.cons_append, List.cons.injEq] at hw
        obtain ⟨rfl, rfl⟩ := hw
        exact ⟨u, v, h1, h2, rfl⟩
    | _ => cases hr
  · rintro ⟨u, v, h1, h2, rfl⟩
    exact .starCons h1 h2

theorem matches_star_star {a : Re} {w : List Sym} :
    Matches env (.star (.star a)) w ↔ Matches env (.star a) w := by
  constructor
  · intro h
    obtain ⟨ws, hws, rfl⟩ := matches_star.1 h
    clear h
    induction ws with
    | nil => exact .starNil
    | cons x xs ih =>
      rw [List.flatten_cons]
      have hx := hws x (by simp)
      have hxs := ih (fun y hy => hws y (by simp [hy]))
      -- concatenation of two star-words is a star-word
      obtain ⟨w1, hw1, rfl⟩ := matches_star.1 hx
      obtain ⟨w2, hw2, h2⟩ := matches_star.1 hxs
      rw [h2, ← List.flatten_append]
      refine matches_star.2 ⟨w1 ++ w2, ?_, rfl⟩
      intro y hy
      rcases List.mem_append.1 hy with hy | hy
      · exact hw1 y hy
      · exact hw2 y hy
  · intro h
    have := Matches.starCons h (Matches.starNil (env := env) (a := .star a))
    simpa using this

/-! ### Convenience constructors -/

theorem matches_sym {n : Nat} {w : List Sym} : Matches env (sym n) w ↔ w = [n] := by
  unfold sym
  rw [matches_cls]
  constructor
  · rintro ⟨a, rfl, h⟩
    simp [Cls.mem, Cls.pos] at h
    have : a = n := Nat.le_antisymm h.2 h.1
    rw [this]
  · rintro rfl
    exact ⟨n, rfl, by simp [Cls.mem, Cls.pos]⟩

theorem matches_opt {a : Re} {w : List Sym} :
    Matches env (Re.opt a) w ↔ Matches env a w ∨ w = [] := by
  unfold Re.opt
  rw [matches_alt, matches_eps]

theorem matches_plus {a : Re} {w : List Sym} :
    Matches env (Re.plus a) w ↔ ∃ u v, Matches env a u ∧ Matches env (.star a) v ∧ w = u ++ v := by
  unfold Re.plus
  rw [matches_cat]

/-- `a+` as a nonempty list of `a`-words -/
theorem matches_plus_flatten {a : Re} {w : List Sym} :
    Matches env (Re.plus a) w ↔
      ∃ ws : List (List Sym), ws ≠ [] ∧ (∀ x ∈ ws, Matches env a x) ∧ w = ws.flatten := by
  rw [matches_plus]
  constructor
  · rintro ⟨u, v, hu, hv, rfl⟩
    obtain ⟨ws, hws, rfl⟩ := matches_star.1 hv
    refine ⟨u :: ws, by simp, ?_, by simp⟩
    intro x hx
    cases hx with
    | head => exact hu
    | tail _ hx => exact hws x hx
  · rintro ⟨ws, hne, hws, rfl⟩
    cases ws with
    | nil => exact absurd rfl hne
    | cons x xs =>
      exact ⟨x, xs.flatten, hws x (by simp),
        matches_star.2 ⟨xs, fun y hy => hws y (by simp [hy]), rfl⟩, by simp⟩

theorem matches_rep {a : Re} {n : Nat} {w : List Sym} :
    Matches env (Re.rep a n) w ↔
      ∃ ws : List (List Sym), ws.length = n ∧ (∀ x ∈ ws, Matches env a x) ∧ w = ws.flatten := by
  induction n generalizing w with
  | zero =>
    simp only [Re.rep, matches_eps]
    constructor
    · rintro rfl; exact ⟨[], rfl, by simp, rfl⟩
    · rintro ⟨ws, hl, _, rfl⟩
      have : ws = [] := List.eq_nil_of_length_eq_zero hl
      simp [this]
  | succ n ih =>
    simp only [Re.rep, matches_cat]
    constructor
    · rintro ⟨u, v, hu, hv, rfl⟩
      obtain ⟨ws, hl, hws, rfl⟩ := ih.1 hv
      refine ⟨u :: ws, by simp [hl], ?_, by simp⟩
      intro x hx
      cases hx with
      | head => exact hu
      | tail _ hx => exact hws x hx
    · rintro ⟨ws, hl, hws, rfl⟩
      cases ws with
      | nil => simp at hl
      | cons x xs =>
        exact ⟨x, xs.flatten, hws x (by simp),
          ih.2 ⟨xs, by simpa using hl, fun y hy => hws y (by simp [hy]), rfl⟩, by simp⟩

theorem matches_optN {a : Re} {k : Nat} {w : List Sym} :
    Matches env (Re.optN a k) w ↔
      ∃ ws : List (List Sym), ws.length ≤ k ∧ (∀ x ∈ ws, Matches env a x) ∧ w = ws.flatten := by
  induction k generalizing w with
  | zero =>
    simp only [Re.optN, matches_eps]
    constructor
    · rintro rfl; exact ⟨[], Nat.le_refl _, by simp, rfl⟩
    · rintro ⟨ws, hl, _, rfl⟩
      have : ws = [] := List.eq_nil_of_length_eq_zero (Nat.le_zero.1 hl)
      simp [this]
  | succ k ih =>
    simp only [Re.optN, matches_opt, matches_cat]
    constructor
    · rintro (⟨u, v, hu, hv, rfl⟩ | rfl)
      · obtain ⟨ws, hl, hws, rfl⟩ := ih.1 hv
        refine ⟨u :: ws, by simp; omega, ?_, by simp⟩
        intro x hx
        cases hx with
        | head => exact hu
        | tail _ hx => exact hws x hx
      · exact ⟨[], by simp, by simp, rfl⟩
    · rintro ⟨ws, hl, hws, rfl⟩
      cases ws with
      | nil => exact .inr rfl
      | cons x xs =>
        exact .inl ⟨x, xs.flatten, hws x (by simp),
          ih.2 ⟨xs, by simp at hl; omega, fun y hy => hws y (by simp [hy]), rfl⟩, by simp⟩

theorem matches_repRange {a : Re} {lo hi : Nat} {w : List Sym} :
    Matches env (Re.repRange a lo hi) w ↔
      ∃ ws : List (List Sym), lo ≤ ws.length ∧ ws.length ≤ max lo hi ∧
        (∀ x ∈ ws, Matches env a x) ∧ w = ws.flatten := by
  unfold Re.repRange
  rw [matches_cat]
  constructor
  · rintro ⟨u, v, hu, hv, rfl⟩
    obtain ⟨ws1, hl1, hws1, rfl⟩ := matches_rep.1 hu
    obtain ⟨ws2, hl2, hws2, rfl⟩ := matches_optN.1 hv
    refine ⟨ws1 ++ ws2, by simp; omega, by simp; omega, ?_, by simp⟩
    intro x hx
    rcases List.mem_append.1 hx with hx | hx
    · exact hws1 x hx
    · exact hws2 x hx
  · rintro ⟨ws, hlo, hhi, hws, rfl⟩
    refine ⟨(ws.take lo).flatten, (ws.drop lo).flatten, ?_, ?_, ?_⟩
    · exact matches_rep.2 ⟨ws.take lo, by simp; omega,
        fun x hx => hws x (List.mem_of_mem_take hx), rfl⟩
    · exact matches_optN.2 ⟨ws.drop lo, by simp; omega,
        fun x hx => hws x (List.mem_of_mem_drop hx), rfl⟩
    · rw [← List.flatten_append, List.take_append_drop]

theorem matches_lit {s : List Nat} {w : List Sym} : Matches env (Re.lit s) w ↔ w = s := by
  induction s generalizing w with
  | nil => simp only [Re.lit, matches_eps]
  | cons c cs ih =>
    simp only [Re.lit, matches_cat, matches_sym]
    constructor
    · rintro ⟨u, v, rfl, hv, rfl⟩
      rw [ih.1 hv]; rfl
    · rintro rfl
      exact ⟨[c], cs, rfl, ih.2 rfl, rfl⟩

theorem matches_catl {rs : List Re} {w : List Sym} :
    Matches env (Re.catl rs) w ↔
      ∃ ws : List (List Sym), ws.length = rs.length ∧
        (∀ p ∈ rs.zip ws, Matches env p.1 p.2) ∧ w = ws.flatten := by
  induction rs generalizing w with
  | nil =>
    simp only [Re.catl, matches_eps]
    constructor
    · rintro rfl; exact ⟨[], rfl, by simp, rfl⟩
    · rintro ⟨ws, hl, _, rfl⟩
      have : ws = [] := List.eq_nil_of_length_eq_zero hl
      simp [this]
  | cons r rs ih =>
    simp only [Re.catl, matches_cat]
    constructor
    · rintro ⟨u, v, hu, hv, rfl⟩
      obtain ⟨ws, hl, hws, rfl⟩ := ih.1 hv
      refine ⟨u :: ws, by simp [hl], ?_, by simp⟩
      intro p hp
      rw [List.zip_cons_cons] at hp
      cases hp with
      | head => exact hu
      | tail _ hp => exact hws p hp
    · rintro ⟨ws, hl, hws, rfl⟩
      cases ws with
      | nil => simp at hl
      | cons x xs =>
        refine ⟨x, xs.flatten, hws (r, x) (by simp), ih.2 ⟨xs, by simpa using hl, ?_, rfl⟩, by simp⟩
        intro p hp
        exact hws p (by rw [List.zip_cons_cons]; exact List.mem_cons_of_mem _ hp)

theorem matches_altl {rs : List Re} {w : List Sym} :
    Matches env (Re.altl rs) w ↔ ∃ r, r ∈ rs ∧ Matches env r w := by
  induction rs with
  | nil =>
    simp only [Re.altl]
    exact ⟨fun h => absurd h matches_zero, fun ⟨_, h, _⟩ => by cases h⟩
  | cons r rs ih =>
    simp only [Re.altl, matches_alt, ih]
    constructor
    · rintro (h | ⟨r', hr', h⟩)
      · exact ⟨r, by simp, h⟩
      · exact ⟨r', by simp [hr'], h⟩
    · rintro ⟨r', hr', h⟩
      cases hr' with
      | head => exact .inl h
      | tail _ hr' => exact .inr ⟨r', hr', h⟩

/-! ### `mark` and `erase` -/

theorem erase_nil : erase [] = [] := rfl

theorem erase_append (u v : List Sym) : erase (u ++ v) = erase u ++ erase v := by
  simp [erase]

theorem erase_flatten (ws : List (List Sym)) : erase ws.flatten = (ws.map erase).flatten := by
  induction ws with
  | nil => rfl
  | cons x xs ih => simp [erase_append, ih]

theorem erase_of_lt {w : List Sym} (h : ∀ a ∈ w, a < maxRune) : erase w = w := by
  unfold erase
  rw [List.filter_eq_self]
  intro a ha
  simpa using h a ha

theorem erase_openSym (i : Nat) : erase [openSym i] = [] := by
  simp [erase, openSym]

theorem erase_closeSym (i : Nat) : erase [closeSym i] = [] := by
  simp [erase, closeSym]
  omega

/-- a class with code-point ranges only, under an interpretation without markers, contains code points only -/
theorem Cls.mem_lt_maxRune {c : Cls} (hc : c.runeOnly = true)
    (henv : ∀ k a, env k a = true → a < maxRune) {a : Sym} (h : c.mem env a = true) :
    a < maxRune := by
  unfold Cls.mem at h
  split at h
  · simp at h; exact h.1
  · unfold Cls.pos at h
    simp only [Bool.or_eq_true, List.any_eq_true, Bool.and_eq_true, decide_eq_true_eq] at h
    rcases h with ⟨r, hr, _, h2⟩ | ⟨k, _, hk⟩
    · unfold Cls.runeOnly at hc
      rw [List.all_eq_true] at hc
      have := hc r hr
      simp at this
      exact Nat.lt_of_le_of_lt h2 this
    · exact henv k a hk

theorem matches_erase_mark {r : Re} (hr : r.runeOnly = true)
    (henv : ∀ k a, env k a = true → a < maxRune) {m : List Sym}
    (h : Matches env (mark r) m) : Matches env r (erase m) := by
  induction r generalizing m with
  | zero => exact absurd h matches_zero
  | eps =>
    simp only [mark] at h
    rw [matches_eps.1 h]; exact .eps
  | cls c =>
    simp only [mark] at h
    obtain ⟨a, rfl, ha⟩ := matches_cls.1 h
    have hlt : a < maxRune := Cls.mem_lt_maxRune (by simpa [Re.runeOnly] using hr) henv ha
    rw [erase_of_lt (by simpa using hlt)]
    exact .cls ha
  | cat a b iha ihb =>
    simp only [mark] at h
    simp only [Re.runeOnly, Bool.and_eq_true] at hr
    obtain ⟨u, v, hu, hv, rfl⟩ := matches_cat.1 h
    rw [erase_append]
    exact .cat (iha hr.1 hu) (ihb hr.2 hv)
  | alt a b iha ihb =>
    simp only [mark] at h
    simp only [Re.runeOnly, Bool.and_eq_true] at hr
    rcases matches_alt.1 h with h | h
    · exact .altL (iha hr.1 h)
    · exact .altR (ihb hr.2 h)
  | star a ih =>
    simp only [mark] at h
    simp only [Re.runeOnly] at hr
    obtain ⟨ws, hws, rfl⟩ := matches_star.1 h
    rw [erase_flatten]
    refine matches_star.2 ⟨ws.map erase, ?_, rfl⟩
    intro x hx
    obtain ⟨y, hy, rfl⟩ := List.mem_map.1 hx
    exact ih hr (hws y hy)
  | group i a ih =>
    simp only [mark] at h
    simp only [Re.runeOnly] at hr
    obtain ⟨u, v, hu, hv, rfl⟩ := matches_cat.1 h
    obtain ⟨v1, v2, hv1, hv2, rfl⟩ := matches_cat.1 hv
    rw [matches_sym.1 hu, matches_sym.1 hv2]
    rw [erase_append, erase_append, erase_openSym, erase_closeSym]
    simpa using Matches.group (ih hr hv1)

theorem mark_complete {r : Re} {w : List Sym} (h : Matches env r w) (hw : ∀ a ∈ w, a < maxRune) :
    ∃ m, Matches env (mark r) m ∧ erase m = w := by
  induction h with
  | eps => exact ⟨[], by simpa [mark] using Matches.eps, rfl⟩
  | @cls c a h => exact ⟨[a], by simpa [mark] using Matches.cls h, erase_of_lt hw⟩
  | @cat a b u v _ _ ih1 ih2 =>
    obtain ⟨m1, hm1, rfl⟩ := ih1 (fun x hx => hw x (by simp [hx]))
    obtain ⟨m2, hm2, rfl⟩ := ih2 (fun x hx => hw x (by simp [hx]))
    exact ⟨m1 ++ m2, by simpa [mark] using Matches.cat hm1 hm2, erase_append _ _⟩
  | altL _ ih =>
    obtain ⟨m, hm, rfl⟩ := ih hw
    exact ⟨m, by simpa [mark] using Matches.altL hm, rfl⟩
  | altR _ ih =>
    obtain ⟨m, hm, rfl⟩ := ih hw
    exact ⟨m, by simpa [mark] using Matches.altR hm, rfl⟩
  | starNil => exact ⟨[], by simpa [mark] using Matches.starNil, rfl⟩
  | @starCons a u v _ _ ih1 ih2 =>
    obtain ⟨m1, hm1, rfl⟩ := ih1 (fun x hx => hw x (by simp [hx]))
    obtain ⟨m2, hm2, rfl⟩ := ih2 (fun x hx => hw x (by simp [hx]))
    refine ⟨m1 ++ m2, ?_, erase_append _ _⟩
    simp only [mark] at hm2 ⊢
    exact Matches.starCons hm1 hm2
  | @group i a u _ ih =>
    obtain ⟨m, hm, rfl⟩ := ih hw
    refine ⟨[openSym i] ++ (m ++ [closeSym i]), ?_, ?_⟩
    · simp only [mark]
      exact Matches.cat (matches_sym.2 rfl) (Matches.cat hm (matches_sym.2 rfl))
    · rw [erase_append, erase_append, erase_openSym, erase_closeSym]; simp

end KlogV.Rx
