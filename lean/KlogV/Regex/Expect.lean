/-
The regular expressions the MODEL was written against, as terms of `KlogV.Rx.Re` (hand-written;
group numbers as in the Go code: `regexp` counts opening parentheses from 1).
The regenerated file KlogV/Gen/Regexes.lean holds the expressions the Go code contains NOW;
KlogV/Props/Regexes.lean proves, every run, that the two denote the same marked language.
Named class 0 = `\p{L}`, named class 1 = `\p{Zs}`.
-/
import KlogV.Regex.Basic
namespace KlogV.Rx.Expect
open KlogV.Rx

def ch (c : Char) : Re := sym c.toNat
def str (s : String) : Re := Re.lit (s.toList.map Char.toNat)
def oneOf (cs : List Char) : Re := .cls ⟨false, cs.map (fun c => (c.toNat, c.toNat)), []⟩
def noneOf (cs : List Char) : Re := .cls ⟨true, cs.map (fun c => (c.toNat, c.toNat)), []⟩
def digit : Re := .cls ⟨false, [('0'.toNat, '9'.toNat)], []⟩
/-- `[\p{L}\d_-]` -/
def tagChar : Re := .cls ⟨false, [('0'.toNat, '9'.toNat), ('_'.toNat, '_'.toNat), ('-'.toNat, '-'.toNat)], [0]⟩
/-- `[\p{Zs}\t]` -/
def zsTab : Re := .cls ⟨false, [('\t'.toNat, '\t'.toNat)], [1]⟩
/-- `.` (without the `s` flag): anything but a line feed -/
def dot : Re := noneOf ['\n']

/-- klog/date.go `^(\d{4})S(\d{2})S(\d{2})$` with `S` the class of minus and slash -/
def date : Re :=
  Re.catl [.group 1 (Re.rep digit 4), oneOf ['-', '/'], .group 2 (Re.rep digit 2), oneOf ['-', '/'], .group 3 (Re.rep digit 2)]

/-- klog/time.go `^(<)?(\d{1,2}):(\d{2})(am|pm)?(>)?$` -/
def time : Re :=
  Re.catl [Re.opt (.group 1 (ch '<')), .group 2 (Re.repRange digit 1 2), ch ':', .group 3 (Re.rep digit 2),
    Re.opt (.group 4 (.alt (str "am") (str "pm"))), Re.opt (.group 5 (ch '>'))]

/-- klog/duration.go `^([-+])?((\d+)h)?((\d+)m)?$` -/
def duration : Re :=
  Re.catl [Re.opt (.group 1 (oneOf ['-', '+'])), Re.opt (.group 2 (.cat (.group 3 (Re.plus digit)) (ch 'h'))),
    Re.opt (.group 4 (.cat (.group 5 (Re.plus digit)) (ch 'm')))]

/-- klog/service/period: `^\d{4}$`, `^\d{4}-\d{2}$`, `^\d{4}-Q\d$`, `^\d{4}-W\d{1,2}$` -/
def year : Re := Re.rep digit 4
def month : Re := Re.catl [Re.rep digit 4, ch '-', Re.rep digit 2]
def quarter : Re := Re.catl [Re.rep digit 4, str "-Q", digit]
def week : Re := Re.catl [Re.rep digit 4, str "-W", Re.repRange digit 1 2]

/-- klog/summary.go `^[\p{Zs}\t]` (a record summary line must NOT match) and `^[\p{Zs}\t]*$`
(a further entry summary line must NOT match) -/
def recordSummaryLineStart : Re := zsTab
def blankLine : Re := .star zsTab

/-- klog/tag.go `#([\p{L}\d_-]+)(=(("[^"]*")|('[^']*')|([\p{L}\d_-]*)))?` (unanchored: found anywhere in a line) -/
def hashTag : Re :=
  Re.catl [ch '#', .group 1 (Re.plus tagChar),
    Re.opt (.group 2 (.cat (ch '=') (.group 3 (Re.altl [
      .group 4 (Re.catl [ch '"', .star (noneOf ['"']), ch '"']),
      .group 5 (Re.catl [ch '\'', .star (noneOf ['\'']), ch '\'']),
      .group 6 (.star tagChar)]))))]

/-- klog/tag.go `^[\p{L}\d_-]+$` -/
def unquotedValue : Re := Re.plus tagChar

/-- reconciler, closing an open range: `^(.*?)\?+(.*)$` -/
def closePlaceholder : Re := Re.catl [.group 1 (.star dot), Re.plus (ch '?'), .group 2 (.star dot)]

/-- reconciler, extending a pause: `^([ \t]*)[^ \t]+` (anchored at the start only) -/
def pauseValue : Re := .cat (.group 1 (.star (oneOf [' ', '\t']))) (Re.plus (noneOf [' ', '\t']))

/-- terminalformat: `\x1b\[[\d;]+m` (unanchored) -/
def ansiSequence : Re := Re.catl [Re.lit [27, '['.toNat], Re.plus (.cls ⟨false, [('0'.toNat, '9'.toNat), (';'.toNat, ';'.toNat)], []⟩), ch 'm']

end KlogV.Rx.Expect
