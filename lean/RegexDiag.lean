/-
Diagnostics for a broken regular-expression tie (run by bin/check when a proof obligation fails):
for every expected pattern that no extracted pattern matches, print the extracted patterns with
the same anchors together with a shortest word that only one of the two matches.
  lake env lean RegexDiag.lean
-/
import KlogV.Props.Rx.Tie
import KlogV.Gen.Regexes
open KlogV KlogV.Rx KlogV.Regexes

def showWord (w : List (Nat × List Bool)) : String :=
  String.join (w.map fun (c, _) =>
    if c ≥ maxRune then (if (c - maxRune) % 2 == 0 then s!"⟨{(c - maxRune) / 2}:" else s!":{(c - maxRune) / 2}⟩")
    else if c < 32 || c == 127 then s!"\\x{c}" else String.singleton (Char.ofNat c))

def expected : List (String × Re × Bool × Bool) :=
  [("date", Expect.date, true, true), ("time", Expect.time, true, true), ("duration", Expect.duration, true, true),
   ("year", Expect.year, true, true), ("month", Expect.month, true, true), ("quarter", Expect.quarter, true, true),
   ("week", Expect.week, true, true), ("recordSummaryLine", Expect.recordSummaryLineStart, true, false),
   ("entrySummaryLine", Expect.blankLine, true, true), ("hashTag", Expect.hashTag, false, false),
   ("unquotedValue", Expect.unquotedValue, true, true), ("closePlaceholder", Expect.closePlaceholder, true, true),
   ("pauseValue", Expect.pauseValue, true, false), ("ansiSequence", Expect.ansiSequence, false, false)]

def main : IO Unit := do
  for (n, e, a, b) in expected do
    if tied Gen.allRegexes e a b then continue
    IO.println s!"REGEX-TIE-BROKEN {n}: no pattern of the code has the expected language/groups/anchors ({a}, {b})"
    for g in Gen.allRegexes do
      match equivWitness 2000 (mark g.2.1) (mark e) with
      | some w => if w.length ≥ 2 then IO.println s!"  candidate {g.1} anchors={g.2.2.1} unsupported={g.2.2.2}: differs on `{showWord w}`"
      | none => IO.println s!"  candidate {g.1} anchors={g.2.2.1} unsupported={g.2.2.2}: same language, different anchors or untranslated constructs"

#eval main
